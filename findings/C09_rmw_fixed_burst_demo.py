import sys
sys.path.insert(0, "/verif")
from migen import *
from migen.sim import run_simulation
from litedram.common import LiteDRAMNativePort
from litedram.frontend.axi import LiteDRAMAXIPort, LiteDRAMAXI2Native

def run(burst, size, beats, rmw=True):
    """beats: list of (data16, strb2); one write burst at byte address 0, then a read of word 0"""
    axi = LiteDRAMAXIPort(data_width=16, address_width=6, id_width=1)
    port = LiteDRAMNativePort("both", 5, 16)
    class H(Module):
        def __init__(self):
            self.submodules.br = LiteDRAMAXI2Native(axi, port, w_buffer_depth=4, r_buffer_depth=4, with_read_modify_write=rmw)
    h = H()
    mem = {0: 0x68f7, 1: 0x1234}
    res = {}
    def master():
        yield axi.b.ready.eq(1); yield axi.r.ready.eq(1)
        yield axi.aw.valid.eq(1); yield axi.aw.addr.eq(0); yield axi.aw.burst.eq(burst); yield axi.aw.len.eq(len(beats) - 1); yield axi.aw.size.eq(size)
        yield
        while not (yield axi.aw.ready): yield
        yield axi.aw.valid.eq(0)
        for i, (d, s) in enumerate(beats):
            yield axi.w.valid.eq(1); yield axi.w.data.eq(d); yield axi.w.strb.eq(s); yield axi.w.last.eq(i == len(beats) - 1)
            yield
            while not (yield axi.w.ready): yield
        yield axi.w.valid.eq(0)
        for _ in range(200):
            yield
            if (yield axi.b.valid): break
        yield axi.ar.valid.eq(1); yield axi.ar.addr.eq(0); yield axi.ar.burst.eq(1); yield axi.ar.len.eq(0); yield axi.ar.size.eq(1)
        yield
        while not (yield axi.ar.ready): yield
        yield axi.ar.valid.eq(0)
        for _ in range(200):
            yield
            if (yield axi.r.valid):
                res["read"] = (yield axi.r.data); break
    def memory():
        # faithful in-order memory: commands accepted every other cycle, data phases 3 cycles later, in order
        pend = []
        t = 0
        while t < 600:
            t += 1
            yield port.cmd.ready.eq(t % 2)
            yield port.wdata.ready.eq(0); yield port.rdata.valid.eq(0)
            if pend and pend[0][2] <= t:
                kind, a, _ = pend[0]
                if kind == "w":
                    yield port.wdata.ready.eq(1)
                else:
                    yield port.rdata.valid.eq(1); yield port.rdata.data.eq(mem.get(a, 0)); pend.pop(0)
            yield
            if (yield port.wdata.ready) and (yield port.wdata.valid):
                kind, a, _ = pend.pop(0)
                d, we = (yield port.wdata.data), (yield port.wdata.we)
                old = mem.get(a, 0)
                mem[a] = ((d if we & 1 else old) & 0xff) | ((d if we & 2 else old) & 0xff00)
            if (yield port.cmd.ready) and (yield port.cmd.valid):
                pend.append(("w" if (yield port.cmd.we) else "r", (yield port.cmd.addr), t + 3))
    run_simulation(h, [master(), memory()])
    return res.get("read"), mem[0]

if __name__ == "__main__":
    exp = lambda beats, init=0x68f7: None
    for name, burst, size, beats, expect in [
        ("FIXED 2 beats, 2nd beat no strobes", 0, 1, [(0x0100, 3), (0x0008, 0)], 0x0100),
        ("INCR narrow (1 byte) 2 beats inside one word", 1, 0, [(0x00aa, 1), (0xbb00, 2)], 0xbbaa),
        ("INCR full-width single beat partial strobe", 1, 1, [(0x00aa, 1)], 0x68aa),
    ]:
        r, m = run(burst, size, beats)
        print("%-50s read=%s mem=%s expected=%s  %s" % (name, hex(r) if r is not None else None, hex(m), hex(expect), "OK" if m == expect and r == expect else "MISMATCH"))
