import sys; sys.path.insert(0, "/repo")
#
# C09 demo: AXI write bursts against a controller-like native port that accepts several write
# commands before it asks for the first write data (activate / refresh stall in front of the
# first column write). Every accepted write command gets exactly one wdata.ready pulse, in order,
# `latency` cycles after its acceptance at the earliest, as the LiteDRAM crossbar does. The data
# seen on the wdata channel during that pulse is what reaches the memory.
#
# Checks: no wdata.ready pulse finds wdata.valid low (lost beat), every burst gets its B response
# with its ID, final memory content equals the reference, and an AXI read-back returns it.

import litedram
print(litedram.__file__)

from migen import *
from migen.sim import passive

from litex.soc.interconnect.axi import BURST_INCR, BURST_WRAP

from litedram.common import LiteDRAMNativePort
from litedram.frontend.axi import LiteDRAMAXIPort, LiteDRAMAXI2Native

DW = 32

# Native side model --------------------------------------------------------------------------------

class NativeModel:
    """Controller-like port: cmd accepted when cmd.ready; one wdata.ready pulse per accepted write,
    in order, not earlier than `wlatency` cycles after acceptance and not before `first_wdata`
    (absolute cycle; models a refresh/activate in front of the first column write); reads return
    one rdata beat per accepted read, in order, `rlatency` cycles after acceptance."""
    def __init__(self, port, wlatency, first_wdata, rlatency=5, cmd_ready_pattern=None):
        self.port        = port
        self.wlatency    = wlatency
        self.first_wdata = first_wdata
        self.rlatency    = rlatency
        self.pattern     = cmd_ready_pattern or [1]
        self.mem         = {}
        self.lost_beats  = []   # (cycle, addr): wdata.ready pulse with wdata.valid low.
        self.max_outstanding_before_first_wdata = 0

    def _write(self, addr, data, we):
        old = self.mem.get(addr, 0)
        for i in range(DW//8):
            if (we >> i) & 1:
                m   = 0xff << (8*i)
                old = (old & ~m) | (data & m)
        self.mem[addr] = old

    @passive
    def handler(self):
        port    = self.port
        wqueue  = []    # (addr, earliest cycle)
        rqueue  = []
        cycle   = 0
        wpulse  = None  # address served by the wdata.ready pulse of the current cycle.
        rvalid  = None
        first_done = False
        yield port.cmd.ready.eq(self.pattern[0])
        yield
        while True:
            cycle += 1
            # Observe current cycle.
            if (yield port.cmd.valid) and (yield port.cmd.ready):
                addr = (yield port.cmd.addr)
                if (yield port.cmd.we):
                    wqueue.append((addr, cycle + self.wlatency))
                    if not first_done:
                        self.max_outstanding_before_first_wdata = len(wqueue)
                else:
                    rqueue.append((addr, cycle + self.rlatency))
            if wpulse is not None:
                # The controller takes the data bus during its wdata.ready cycle, whatever valid says.
                if (yield port.wdata.valid):
                    self._write(wpulse, (yield port.wdata.data), (yield port.wdata.we))
                else:
                    self.lost_beats.append((cycle, wpulse))
                wpulse = None
            if rvalid is not None:
                if (yield port.rdata.ready):
                    rvalid = None
            # Drive next cycle.
            nxt = cycle + 1
            yield port.wdata.ready.eq(0)
            if wqueue and wqueue[0][1] <= nxt and nxt >= self.first_wdata:
                wpulse = wqueue.pop(0)[0]
                first_done = True
                yield port.wdata.ready.eq(1)
            if rvalid is None:
                yield port.rdata.valid.eq(0)
                if rqueue and rqueue[0][1] <= nxt:
                    rvalid = rqueue.pop(0)[0]
                    yield port.rdata.valid.eq(1)
                    yield port.rdata.data.eq(self.mem.get(rvalid, 0))
            yield port.cmd.ready.eq(self.pattern[cycle % len(self.pattern)])
            yield

# AXI master ---------------------------------------------------------------------------------------

class Burst:
    def __init__(self, addr, data, id, type=BURST_INCR, strb=None):
        self.addr = addr            # byte address, aligned to the data width.
        self.data = data
        self.strb = strb or [0xf]*len(data)
        self.id   = id
        self.type = type

    def beat_addrs(self):
        n = len(self.data)
        if self.type == BURST_INCR:
            return [self.addr//4 + i for i in range(n)]
        assert self.type == BURST_WRAP and n in [2, 4, 8, 16]
        base = (self.addr//4) & ~(n - 1)
        return [base + ((self.addr//4 + i) & (n - 1)) for i in range(n)]


TIMEOUT = 2000

def aw_gen(axi, bursts):
    for b in bursts:
        yield axi.aw.valid.eq(1)
        yield axi.aw.addr.eq(b.addr)
        yield axi.aw.burst.eq(b.type)
        yield axi.aw.len.eq(len(b.data) - 1)
        yield axi.aw.size.eq(2)
        yield axi.aw.id.eq(b.id)
        yield
        t = 0
        while (yield axi.aw.ready) == 0 and t < TIMEOUT:
            t += 1
            yield
        yield axi.aw.valid.eq(0)

def w_gen(axi, bursts):
    for b in bursts:
        for i, (d, s) in enumerate(zip(b.data, b.strb)):
            yield axi.w.valid.eq(1)
            yield axi.w.data.eq(d)
            yield axi.w.strb.eq(s)
            yield axi.w.last.eq(i == len(b.data) - 1)
            yield
            t = 0
            while (yield axi.w.ready) == 0 and t < TIMEOUT:
                t += 1
                yield
            yield axi.w.valid.eq(0)

def b_gen(axi, bursts, got, done):
    yield axi.b.ready.eq(1)
    t = 0
    while len(got) < len(bursts) and t < TIMEOUT:
        yield
        t += 1
        if (yield axi.b.valid) and (yield axi.b.ready):
            got.append(((yield axi.b.id), (yield axi.b.resp)))
            t = 0
    done.append(True)

def ar_r_gen(axi, bursts, done, rdata):
    # Read every burst back, after all write responses (or the timeout).
    while not done:
        yield
    yield axi.r.ready.eq(1)
    for b in bursts:
        yield axi.ar.valid.eq(1)
        yield axi.ar.addr.eq(b.addr)
        yield axi.ar.burst.eq(b.type)
        yield axi.ar.len.eq(len(b.data) - 1)
        yield axi.ar.size.eq(2)
        yield axi.ar.id.eq(b.id)
        yield
        t = 0
        while (yield axi.ar.ready) == 0 and t < TIMEOUT:
            t += 1
            yield
        yield axi.ar.valid.eq(0)
        beats = []
        t = 0
        while len(beats) < len(b.data) and t < TIMEOUT:
            yield
            t += 1
            if (yield axi.r.valid):
                beats.append(((yield axi.r.data), (yield axi.r.id), (yield axi.r.last)))
        rdata.append(beats)

# Scenario -----------------------------------------------------------------------------------------

def run(name, depth, bursts, wlatency, first_wdata, cmd_ready_pattern=None, rmw=False):
    axi   = LiteDRAMAXIPort(data_width=DW, address_width=32, id_width=4)
    port  = LiteDRAMNativePort("both", 32, DW)
    dut   = LiteDRAMAXI2Native(axi, port, w_buffer_depth=depth, r_buffer_depth=depth,
        with_read_modify_write=rmw)
    model = NativeModel(port, wlatency, first_wdata, cmd_ready_pattern=cmd_ready_pattern)

    got_b, done, rdata = [], [], []
    run_simulation(dut, [
        aw_gen(axi, bursts),
        w_gen(axi, bursts),
        b_gen(axi, bursts, got_b, done),
        ar_r_gen(axi, bursts, done, rdata),
        model.handler(),
    ])

    # Reference memory.
    ref = {}
    for b in bursts:
        for a, d, s in zip(b.beat_addrs(), b.data, b.strb):
            old = ref.get(a, 0)
            for i in range(4):
                if (s >> i) & 1:
                    m   = 0xff << (8*i)
                    old = (old & ~m) | (d & m)
            ref[a] = old

    errors = []
    if model.lost_beats:
        errors.append("wdata.ready pulses without valid write data (cycle, addr): %s" % model.lost_beats[:8])
    if got_b != [(b.id, 0) for b in bursts]:
        errors.append("B responses %s, expected ids %s" % (got_b, [b.id for b in bursts]))
    bad = {a: (model.mem.get(a), v) for a, v in ref.items() if model.mem.get(a) != v}
    if bad:
        errors.append("memory mismatches {addr: (got, expected)}: %s" %
            {hex(a): tuple(hex(x) if x is not None else None for x in v) for a, v in list(bad.items())[:8]})
    extra = set(model.mem) - set(ref)
    if extra:
        errors.append("writes outside the addressed beats: %s" % sorted(extra)[:8])
    for b, beats in zip(bursts, rdata):
        exp = [(ref[a], b.id, int(i == len(b.data) - 1)) for i, a in enumerate(b.beat_addrs())]
        if beats != exp:
            errors.append("read-back of burst id %d: %s, expected %s" % (b.id, beats, exp))
            break
    if len(rdata) != len(bursts):
        errors.append("read-back incomplete")

    print("[%s] depth=%d, write commands accepted before first wdata.ready: %d -> %s" % (
        name, depth, model.max_outstanding_before_first_wdata, "OK" if not errors else "FAIL"))
    for e in errors:
        print("   ", e)
    return not errors


def main():
    """genuine defect (repaired by the fix: commit named in known_findings.json): for w_buffer_depth = 2^n - 1 the write
    reservation counter `w_buffer_level = Signal(max=buffer_depth+1)` cannot hold depth+1, the number of beats the *buffered*
    w_buffer FIFO holds; it wraps to 0 when depth+1 commands are accepted before the first wdata.ready and write beats are lost.
    Exits 1 when a scenario fails (tree without the fix), 0 otherwise."""
    ok = True
    for depth in (3, 15, 5):
        n = depth + 1
        bursts = [Burst(0x100, [0xa0000000 + i for i in range(n)], id=3),
                  Burst(0x400, [0xb0000000 + i for i in range(4)], id=4)]
        ok &= run("depth %d, %d commands before the first wdata.ready" % (depth, n), depth, bursts, wlatency=6,
                  first_wdata=3 * n + 10)
    if not ok:
        print("FAIL")
        sys.exit(1)
    print("PASS")


if __name__ == "__main__":
    main()
