#!/bin/bash
# tools/try_patch_scratch.sh <patch.diff> <tier> <Cxx> [...] : evaluate a seeded change on a scratch worktree of /repo HEAD
# (never touches /repo); output under /tmp/scratch_out/<name>
P=$(realpath "$1"); T=$2; shift; shift
N=$(basename $(dirname $P))
W=/tmp/scratch_wt/$N; rm -rf $W; mkdir -p /tmp/scratch_wt /tmp/scratch_out/$N
git -C /repo worktree add -q --detach $W HEAD || exit 9
(cd $W && (git apply "$P" || patch -p1 --fuzz=3 < "$P")) || { echo "patch does not apply"; git -C /repo worktree remove --force $W; exit 9; }
cd /verif
for c in "$@"; do
  VERIF_REPO=$W VERIF_OUT=/tmp/scratch_out/$N ./check $c --tier $T > /tmp/scratch_out/$N/$c.out 2>&1; echo "  $N $c tier=$T exit=$? VIOLATION lines: $(grep -c '^VIOLATION' /tmp/scratch_out/$N/$c.out)"
  grep '^VIOLATION' /tmp/scratch_out/$N/$c.out | sed 's/replay=[^ ]* //' | sed 's/\[[^]]*\]//' | cut -c1-200 | sort | uniq -c | head -6
  grep -v '^VIOLATION' /tmp/scratch_out/$N/$c.out | cut -c1-250 | tail -2
done
git -C /repo worktree remove --force $W
