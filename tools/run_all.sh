#!/bin/bash
# runs every claimed check (quick tier by default) on the current tree; prints one line each
cd /verif
T=${1:-quick}
for c in $(.venv/bin/python -c "import json; print(' '.join(x['property_id'] for x in json.load(open('MANIFEST.json'))['checks']))"); do
  ./check $c --tier $T > /tmp/all_$c.out 2>&1; e=$?
  echo "$c exit=$e $(grep -c '^VIOLATION' /tmp/all_$c.out) violations | $(tail -1 /tmp/all_$c.out | cut -c1-200)"
done
