#!/usr/bin/env python3
"""Regenerates /verif/MANIFEST.json from the table below (keeps it schema-valid at all times)."""
import json, os, sys
HERE = os.path.dirname(os.path.dirname(os.path.abspath(__file__)))
sys.path.insert(0, HERE)
from tools.manifest_table import CHECKS, NOT_APPLICABLE

ALL = ["C%02d" % i for i in range(1, 21)]
checks = []
for pid in ALL:
    if pid not in CHECKS:
        continue
    c = CHECKS[pid]
    checks.append({
        "property_id": pid,
        "quick_cmd": "./check %s --tier quick" % pid,
        "thorough_cmd": "./check %s --tier thorough" % pid,
        "evidence_file": "evidence/%s.json" % pid,
        "replay_cmd_template": "./check replay {path}",
        "engine": c["engine"],
        "level_claimed": {"category": c["category"], "text": c["text"], "design_ref": c.get("design_ref", "DESIGN.md §3 " + pid)},
        "level_note": c["note"],
        "technique": c["technique"],
    })
na = [{"property_id": p, "reason": NOT_APPLICABLE[p]} for p in ALL if p not in CHECKS]
m = {
    "version": 1,
    "setup_cmd": "./setup.sh",
    "hooks": {"guard": "LITEDRAM_VERIF", "enable": "no source hooks: contracts are sidecar files; internal signals are captured with sys.setprofile at constructor return (checks export LITEDRAM_VERIF=1 for uniformity only)",
              "baseline_off_cmd": "cd /repo && /venv/bin/python -m pytest -ra -q -p no:cacheprovider --timeout=900 --continue-on-collection-errors",
              "source_commits": [], "add_only": True},
    "engines": [
        {"name": "HWVC", "path": "vc/hwvc.py, vc/engine.py", "serves_properties": [p for p in ALL if p in CHECKS and "HWVC" in CHECKS[p]["engine"]],
         "kind_free_text": "contract-based deductive verification of the real elaborated Migen modules: FHDL->z3 transition relation, sidecar contracts (assume/ghost/invariant/ensures), induction / k-induction / combinational validity / bounded response from arbitrary invariant states; bounded unrolling from reset as labelled stand-in"},
        {"name": "PyVC", "path": "vc/pyvc.py", "serves_properties": [p for p in ALL if p in CHECKS and "PyVC" in CHECKS[p]["engine"]],
         "kind_free_text": "verification conditions generated from the AST of the real Python functions (re-read from /repo every run), discharged by z3 (cvc5 second solver); sidecar contracts"},
    ],
    "checks": checks,
    "not_applicable": na,
    "notes": "Verdict protocol: exit 0 held / 1 VIOLATION (replayed on the real code, or no-failing-input-found) / 2 undecided / 3 checker error. Known findings: known_findings.json.",
}
json.dump(m, open(os.path.join(HERE, "MANIFEST.json"), "w"), indent=1)
import jsonschema
jsonschema.validate(m, json.load(open("/root/.vp/MANIFEST.schema.json")))
print("MANIFEST.json written:", len(checks), "checks,", len(na), "not_applicable")
