"""Per-property manifest entries.  A property listed in NOT_APPLICABLE and absent from CHECKS is not claimed."""
CHECKS = {
    "C02": dict(
        engine="HWVC", category="proof", technique="contract-based deductive verification: per-module contracts (BankMachine) and 2-induction on the real elaborated LiteDRAMController with ghost reference DRAM bank state driven by the DFI pins (z3)",
        text="BankMachine contract (ghost bank state, inductive invariants, postconditions) proved per configuration; on the real LiteDRAMController (bank machines + multiplexer + steerer + refresher) the bank-machine contract's environment assumptions become proved obligations, linking invariants tie the registered DFI pins to the accepted commands, and the property's clauses (ACT only to a precharged bank, RD/WR only to the open request row, REF/ZQCS only with all banks precharged, read/write phase placement with data-enable strobes, chip selects) are postconditions on the DFI pins against an independent ghost DRAM bank state - all inputs, all schedules, unbounded time.",
        note="Per configuration (list in evidence: phases 1/2/4, banks 2/4, ranks 1/2, AP on/off, ZQCS, buffered). refresh_postponing>1 not yet under contract (start-up phantom refresh sequence, see DESIGN). Trusted: z3, Migen lowering, FHDL->z3 translator (cross-checked each run).",
    ),
    "C15": dict(
        engine="HWVC", category="proof", technique="contract-based deductive verification: combinational validity of SECDED/granularity postconditions on the real elaborated ECC write/read paths for all data and all symbolic flip positions; induction for counters/flags (z3)",
        text="Round trip, every single flip and every double flip (symbolic one-/two-hot masks over all code bits, every lane, other lanes arbitrary), byte-enable widening and the granularity flag are postconditions of the real LiteDRAMNativePortECCW/ECCR proved for all inputs; counters, sticky flags and pipeline of LiteDRAMNativePortECC proved by induction against reference instances of those modules.",
        note="Lane widths 8/16/32/64 x 8 lanes enumerated. CSR software writes are free inputs; CSR shims in the harness process. rdata words presented one cycle each.",
    ),
    "C03": dict(
        engine="HWVC", category="proof", technique="contract-based deductive verification: inductive invariants linking the real timers to ghost DRAM-clock ages (BankMachine) and finite-window obligations from arbitrary invariant states on the real LiteDRAMController (z3)",
        text="Requirements are given in DRAM clocks with phase positions; the controller is configured with the smallest cycle counts C16's postcondition allows. BankMachine: tRCD/tRP/tRAS/tRC/write-recovery for explicit, auto- and refresh precharge as postconditions over ghost ages for every steering phase (inductive). Controller: tCCD, tRRD, tFAW, tWTR, tRP-before-REF/ZQCS, tRFC, tZQCS and the per-bank spacings with the real steering phases as window obligations proved from ANY state satisfying the (proved) C02 invariants, i.e. for unbounded time and all schedules.",
        note="Per configuration (requirement tuples chosen so each constraint binds; list in evidence). Auto-precharge by its weakest reading; tRTP not in the property's list. The link cycles->ns is C16's postcondition.",
    ),
    "C04": dict(
        engine="HWVC", category="proof", technique="contract-based deductive verification: induction, k-induction and bounded-response-from-arbitrary-state obligations on the real Refresher and LiteDRAMController (z3); deadline arithmetic as a z3 integer lemma",
        text="Refresher contracts: tick exactly every tREFI cycles; one request per `postponing` ticks; from ANY in-range state back to IDLE within B cycles; never busy longer than B (k-induction) hence no request pulse is ever dropped; a granted request runs exactly `postponing` x (PREA, tRP, REF, tRFC); an elapsed ZQCS period is served at the next refresh. Grant latency A_G on the real controller: from any state satisfying the C02 invariants with the refresher requesting, the bus is handed over within G cycles whatever the ports do; bank machines resume afterwards. The k-th-refresh deadline follows by a z3 integer lemma.",
        note="Per configuration (postponing 1/2/4/8, ZQCS, G per controller config). Config precondition explicit: busy bound < postponing*tREFI. Start-up phantom rounds of the sequencer (postponing>1) handled by a simulated deterministic prefix asserted as an invariant. tREFI cycles vs ns: C16.",
    ),
    "C06": dict(
        engine="HWVC", category="proof", technique="contract-based deductive verification: combinational validity (z3) of layout/bijection postconditions on the expression trees returned by the real address-mapping functions, per geometry",
        text="For each geometry the expressions produced by the real get_bank_address/get_row_column_address/_AddressSlicer and the real crossbar routing are proved, for all port addresses, to equal the explicit column->bank->row layout (hence bijective), injective on two symbolic addresses, never to use A10 as a column bit, and to walk columns, banks, rows in that order; the bank machine's use of the address on ACT/RD/WR is a postcondition of the real BankMachine.",
        note="Enumerated geometries (quick 140, thorough ~600 incl. bank_byte_alignment). Preconditions explicit: bank field inside the address; addressbits >= colbits+1 when colbits>10.",
    ),
    "C16": dict(
        engine="PyVC", category="proof", technique="contract-based deductive verification: verification conditions generated from the AST of the real Python functions (symbolic clock frequency, ratio and datasheet numbers), discharged by z3 (cvc5 second solver); callers checked against callee contracts",
        text="margin, ns_to_cycles, ck_to_cycles, ck_ns_to_cycles and every TimingSettings field built in SDRAMModule.__init__ are proved, for every real clock frequency, every ratio d in {1,2,4,8} and every datasheet (ck, ns) pair, to cover the nanosecond value on the worst phases and the clock count, to be the smallest such count, and tREFI not to exceed the datasheet interval; SPD bit-field helpers over their full input domain. Bounded (not counted as proved): the whole library x speedgrades x refresh modes x rates x frequency grid and the test SPD images executed in CPython against exact Fraction arithmetic.",
        note="Python float treated as real (bounded by the Fraction cross-run); rate_frac string parsing and get()'s dynamic attribute lookup replaced by contracts that are checked natively over the finite library.",
    ),
}
_todo = "check not built yet in this round (design in DESIGN.md §3); will be claimed when its contracts are committed"
NOT_APPLICABLE = {("C%02d" % i): _todo for i in range(1, 21)}
