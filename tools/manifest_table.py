"""Per-property manifest entries.  A property listed in NOT_APPLICABLE and absent from CHECKS is not claimed."""
CHECKS = {
    "C02": dict(
        engine="HWVC", category="proof", technique="contract-based deductive verification: inductive invariants + postconditions on the real elaborated BankMachine (z3), ghost DRAM bank state",
        text="Per-module contracts on the real BankMachine constructor output are discharged by induction over all inputs and schedules (unbounded time) for each listed configuration.",
        note="Per configuration (enumerated list in evidence). Trusted: z3, Migen elaboration passes, FHDL->z3 translator (cross-checked against the Migen simulator each run).",
    ),
}
_todo = "check not built yet in this round (design in DESIGN.md §3); will be claimed when its contracts are committed"
NOT_APPLICABLE = {("C%02d" % i): _todo for i in range(1, 21)}
