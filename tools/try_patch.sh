#!/bin/bash
# tools/try_patch.sh <patch.diff> <Cxx> [Cyy ...]  -- apply a seeded change to /repo, run the checks once, undo it
P=$(realpath "$1"); shift
cd /repo && git apply "$P" || { echo "patch does not apply"; exit 9; }
cd /verif
for c in "$@"; do
  ./check $c > /tmp/try_$c.out 2>&1; echo "  $c exit=$? VIOLATION lines: $(grep -c '^VIOLATION' /tmp/try_$c.out)"
  grep '^VIOLATION' /tmp/try_$c.out | sed 's/replay=[^ ]* //' | sed 's/\[[^]]*\]//' | cut -c1-200 | sort | uniq -c | head -6
  grep -v '^VIOLATION' /tmp/try_$c.out | cut -c1-250 | tail -2
done
cd /repo && git checkout -- . && git status --short | grep -v "??"
exit 0
