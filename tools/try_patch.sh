#!/bin/bash
# tools/try_patch.sh <patch.diff> <Cxx> [Cyy ...]  -- apply a seeded change to /repo, run the checks, undo it
P=$(realpath "$1"); shift
cd /repo && git apply "$P" || { echo "patch does not apply"; exit 9; }
cd /verif
for c in "$@"; do ./check $c 2>&1 | cut -c1-260 | grep -v "^VIOLATION" | tail -3;  ./check $c 2>/dev/null | grep -c "^VIOLATION" | sed "s/^/  $c VIOLATION lines: /"; ./check $c 2>/dev/null | grep "^VIOLATION" | head -3 | cut -c1-260; done
cd /repo && git checkout -- . && git status --short | grep -v "??" 
