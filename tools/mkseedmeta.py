#!/usr/bin/env python3
"""writes seeded/<id>/meta.json from confirm.json + the detection table below"""
import json, os, glob
HERE = os.path.dirname(os.path.dirname(os.path.abspath(__file__)))
DETECT = json.load(open(os.path.join(HERE, "seeded", "detection.json")))
for d in sorted(glob.glob(os.path.join(HERE, "seeded", "*-m*"))):
    sid = os.path.basename(d)
    conf = json.load(open(os.path.join(d, "confirm.json"))) if os.path.exists(os.path.join(d, "confirm.json")) else {}
    notes = open(os.path.join(d, "notes.md")).read() if os.path.exists(os.path.join(d, "notes.md")) else ""
    det = DETECT.get(sid, {})
    meta = {
        "id": sid, "breaks_property": conf.get("property", sid.split("-")[0]),
        "needs_to_manifest": det.get("needs", ""),
        "origin": "independent sub-agent given only the property text and a scratch worktree",
        "confirmation": {"ran": "tools/confirm_seed.sh: scratch worktree (waves 1-4: pinned commit 4ec40cd; wave 5 onwards: HEAD of /repo at the time, with the fix: commits made until then); demo without patch, apply patch, demo with patch, "
                                "full pinned suite (pytest -n 4, junit) compared with BASELINE.json stable_pass",
                         **{k: conf.get(k) for k in ("demo_exit_unmodified", "demo_exit_with_patch", "pinned_tests_expected",
                                                     "pinned_tests_passing_with_patch", "confirmed")}},
        "patch": "patch.diff" + (" (patch_on_fixed_tree.diff: same change rebased on the tree with the fix: commits)" if os.path.exists(os.path.join(d, "patch_on_fixed_tree.diff")) else ""),
        "detected_by": det.get("detected_by", "not yet evaluated"),
        "detection_detail": det.get("detail", ""),
    }
    json.dump(meta, open(os.path.join(d, "meta.json"), "w"), indent=1)
print("meta written")
