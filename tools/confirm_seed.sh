#!/bin/bash
# tools/confirm_seed.sh <seed-id> <dir with patch.diff demo.py notes.md> <property> : independent confirmation in a scratch
# worktree: demo fails with the patch and passes without; the pinned test-suite (stable_pass of BASELINE.json) still passes.
# Writes /verif/seeded/<seed-id>/{patch.diff,demo.py,notes.md,confirm.json}; removes the worktree afterwards.
ID=$1; SRC=$2; PROP=$3
D=/verif/seeded/$ID; mkdir -p $D
cp $SRC/patch.diff $D/patch.diff; cp $SRC/demo*.py $D/ 2>/dev/null; cp $SRC/notes.md $D/notes.md 2>/dev/null
DEMO=$(ls $D/demo*.py | head -1)
WT=/tmp/cw/$ID; rm -rf $WT; mkdir -p /tmp/cw
git -C /repo worktree add -q --detach $WT ${BASE:-4ec40cd} || exit 9
cd $WT
# demos written by the agents put their own worktree on sys.path: point them at this one
sed "s#/tmp/wt/[A-Za-z0-9_]*#$WT#g" $DEMO > $WT/_demo.py
for extra in $SRC/*.py; do case "$(basename $extra)" in demo*.py) ;; *) sed "s#/tmp/wt/[A-Za-z0-9_]*#$WT#g" $extra > $WT/$(basename $extra); cp $extra $D/ ;; esac; done
run_demo() { if grep -q "def test_" $WT/_demo.py && ! grep -q "__main__" $WT/_demo.py; then timeout 1500 /venv/bin/python -m pytest -q -p no:cacheprovider _demo.py >/dev/null 2>&1; else timeout 1500 /venv/bin/python _demo.py >/dev/null 2>&1; fi; echo $?; }
CLEAN=$(run_demo)
git apply $D/patch.diff || { echo "{\"id\":\"$ID\",\"error\":\"patch does not apply\"}" > $D/confirm.json; git -C /repo worktree remove --force $WT; exit 9; }
MUT=$(run_demo)
timeout 3000 /venv/bin/python -m pytest -q -p no:cacheprovider --timeout=900 --continue-on-collection-errors --junitxml=$WT/_junit.xml -n 4 >/dev/null 2>&1
/venv/bin/python - <<PY > $D/confirm.json
import json, xml.etree.ElementTree as ET
base = set(json.load(open('/root/.vp/BASELINE.json'))['stable_pass'])
passed=set()
try:
    for tc in ET.parse('$WT/_junit.xml').getroot().iter('testcase'):
        if not any(ch.tag in ('failure','error','skipped') for ch in tc):
            passed.add(tc.get('classname')+'::'+tc.get('name'))
except Exception as e:
    passed=set()
missing = sorted(base-passed)
print(json.dumps({"id":"$ID","property":"$PROP","demo_exit_unmodified":$CLEAN,"demo_exit_with_patch":$MUT,
  "pinned_tests_expected":len(base),"pinned_tests_passing_with_patch":len(base&passed),"pinned_tests_missing":missing[:10],
  "confirmed": ($CLEAN==0 and $MUT!=0 and not missing)}, indent=1))
PY
cd /; git -C /repo worktree remove --force $WT
cat $D/confirm.json | tr -d '\n'; echo
