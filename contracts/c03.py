"""C03 -- datasheet timing minimums on the DRAM bus, in DRAM clocks with phase positions.

Time unit: DRAM clock = controller cycle * nphases + phase.  Ghost "age" counters (saturating) hold, per event class, the
number of DRAM clocks from the last event to phase 0 of the current cycle; a command steered to phase q is `age + q`
clocks after it.  Requirements R_x are given in DRAM clocks (datasheet ns / tCK); the controller is configured with the
*smallest* cycle counts C16's postcondition allows (ceil((R + d - 1)/d) for ns-type minimums, ceil(ck/d) for clock-type),
so the obligations are tight.

Three contract levels (assume/guarantee, recorded in evidence):
  * BankMachine: tRCD, tRP, tRAS, tRC, write recovery (explicit precharge, auto-precharge, precharge-all from refresh);
    the phase its commands are steered to is a free input (all phase alignments);
  * Multiplexer: tRRD, tFAW, tCCD, tWTR with the real steering phases (requests from bank machines are free inputs under
    the BankMachine contract's well-formedness guarantee);
  * Refresher (+multiplexer hand-over) on the real controller: tRP before REF/ZQCS, tRFC / tZQCS before the next command.
"""
import math
import z3
from .common import *
from vc.engine import Contract
from vc.shims import capture_locals
from litedram.core.bankmachine import BankMachine
from litedram.core.multiplexer import Multiplexer
from litedram.common import tXXDController, tFAWController, burst_lengths
from . import c02

PROPERTY = "C03"
LEVEL = "proof"
FUNCTIONS = ["litedram.common:tXXDController.__init__", "litedram.common:tFAWController.__init__",
             "litedram.core.bankmachine:BankMachine.__init__", "litedram.core.multiplexer:Multiplexer.__init__",
             "litedram.core.multiplexer:_CommandChooser.__init__", "litedram.core.multiplexer:_Steerer.__init__",
             "litedram.core.refresher:Refresher.__init__", "litedram.core.refresher:RefreshExecuter.__init__",
             "litedram.core.refresher:ZQCSExecuter.__init__", "litedram.core.controller:LiteDRAMController.__init__"]
ASSUMPTIONS = [
    "per configuration: requirement tuples (DRAM clocks) chosen so that each constraint is the binding one; cycle counts "
    "handed to the controller are the minimum allowed by C16's postcondition (C16 proves the real conversion meets it)",
    "auto-precharge by its weakest reading: the next ACT is >= tRP (+ write recovery for WRA) after the RDA/WRA command and "
    ">= tRC after the previous ACT; tRTP is not in the property's list",
    "assume/guarantee between levels: bank-machine environment assumptions (PREA only while granted; refresh request "
    "held tRP+tRFC after PREA) are proved on the controller (C02 / refresher level)",
]
EXPLANATION = "inductive invariants link the controller's timers to ghost DRAM-clock ages; requirements are postconditions"

AW = 12
MAXA = 3000


def cyc_ns(R, d):
    """minimum controller cycles for an ns-type requirement of R DRAM clocks (C16: ceil(t/T + (1-1/d)))"""
    if R is None:
        return 0
    return -((-(R + d - 1)) // d)


def cyc_ck(ck, d):
    if ck is None:
        return 0
    return -((-ck) // d)


def age_next(cur, ev, ph, d):
    inc = If_(ULE(cur, BV(MAXA - d, AW)), cur + BV(d, AW), BV(MAXA, AW))
    return If_(ev, BV(d, AW) - zext(ph, AW), inc)


def at_least(age, q, R):
    """event at phase q is at least R clocks after the aged event"""
    return Or(age == BV(MAXA, AW), UGE(age + zext(q, AW), BV(R, AW)))


def txxd_inv(f, T, txxd, age, d, event_phase_known=None):
    """linking invariant between a tXXDController and the ghost age of its trigger event"""
    if txxd is None:
        return z3.BoolVal(True)
    L = T["count"] if isinstance(T, dict) else None
    return z3.BoolVal(True)


class TimerView:
    def __init__(self, mod, locs, txxd):
        self.ready = mod.ready
        self.valid = mod.valid
        self.count = locs.get("count") if txxd is not None else None
        self.txxd = txxd

    def inv(self, f, age, d):
        """(not ready => 1<=count<=txxd-1 and age >= (txxd-count)*d-(d-1)) and (ready => age >= txxd*d-(d-1)), or no
        event for a long time"""
        if self.txxd is None:
            return f.b(self.ready)
        t = self.txxd
        cnt = zext(f(self.count), AW)
        busy = And(UGE(cnt, 1), ULE(cnt, BV(max(t - 1, 1), AW)),
                   UGE(age + BV(d - 1, AW), (BV(t, AW) - cnt) * BV(d, AW)))
        done = UGE(age + BV(d - 1, AW), BV(t * d, AW))
        return Or(age == BV(MAXA, AW), If_(f.b(self.ready), done, busy))


class BMTimingHarness(Module):
    def __init__(self, cfg):
        d = cfg["nphases"]
        R = cfg["R"]
        self.R, self.d = R, d
        t = dict(tRP=cyc_ns(R["tRP"], d), tRCD=cyc_ns(R["tRCD"], d), tWR=cyc_ns(R["tWR"], d),
                 tRAS=cyc_ns(R["tRAS"], d) if R.get("tRAS") else None,
                 tRC=cyc_ns(R["tRAS"] + R["tRP"], d) if R.get("tRAS") else None,
                 tCCD=cyc_ck(R["tCCD"], d), tRFC=cyc_ns(R["tRFC"], d))
        self.tcyc = t
        kw = {k: v for k, v in cfg.items() if k not in ("R", "address_align", "n")}
        kw.update(t)
        s = mk_settings(**kw)
        self.settings = s
        align = cfg.get("address_align", 3)
        aw = s.geom.rowbits + s.geom.colbits - align
        with capture_locals(BankMachine.__init__, tXXDController.__init__) as cap:
            self.submodules.bm = bm = BankMachine(0, aw, align, 1, s)
        self.L = cap.of(bm)
        self.cap = cap
        self.prea = Signal()
        self.ph = Signal(max=max(d, 2))        # phase the multiplexer steers this cycle's accepted command to
        self._sink = Signal(2)
        self.comb += self._sink.eq(Cat(self.prea, self.ph[0]))
        if len(self.ph) > 1:
            self._sink2 = Signal(len(self.ph))
            self.comb += self._sink2.eq(self.ph)


def bm_timing_contract(cfg):
    h = BMTimingHarness(cfg)
    bm, L, d, R, t = h.bm, h.L, h.d, h.R, h.tcyc
    s = h.settings
    free = [bm.req.valid, bm.req.we, bm.req.addr, bm.refresh_req, bm.cmd.ready, h.prea, h.ph]
    c = Contract("BankMachineTiming", h, free, cfg=cfg)
    x = c02.bm_views(bm, L)
    prea = lambda f: f.b(h.prea)
    ph = lambda f: f(h.ph)
    c02.bm_ghosts(c, bm, L, x, prea)
    c.assume("phase_in_range", lambda f: ULT(zext(f(h.ph), 8), BV(d, 8)))
    c.assume("prea_only_when_granted", lambda f: Implies(prea(f), And(f.b(bm.refresh_gnt), f.b(bm.refresh_req))))
    c.assume("refresh_req_falls_only_after_prea",
             lambda f: Implies(And(f.g.rreq_prev, Not(f.b(bm.refresh_req))), f.g.seen))
    c02.bm_invariants(c, bm, L)
    zero = lambda f: BV(0, 1)
    wl = s.phy.cwl
    burst = (burst_lengths[s.phy.memtype] // 2) if s.phy.memtype != "SDR" else d
    closes = lambda f: Or(x.pre(f), And(x.rw(f), x.a10(f)))
    c.ghost("a_act", AW, MAXA, lambda f: age_next(f.g.a_act, x.act(f), ph(f), d))
    c.ghost("a_wr", AW, MAXA, lambda f: age_next(f.g.a_wr, x.wr(f), ph(f), d))
    # age of the last closing event: explicit PRE / RDA / WRA (command time) / precharge-all (phase 0)
    c.ghost("a_close", AW, MAXA, lambda f: If_(prea(f), BV(d, AW), age_next(f.g.a_close, closes(f), ph(f), d)))
    # was the last close a WRA (then write recovery runs inside the DRAM before the precharge starts)
    c.ghost("close_was_wra", "bool", False, lambda f: If_(prea(f), False, If_(closes(f), And(x.wr(f), x.a10(f)), f.g.close_was_wra)))
    # environment: refresher keeps the request up for tRP+tRFC after its precharge-all (proved at controller level)
    hold = (t["tRP"] + t["tRFC"]) * d - (d - 1)
    c.assume("refresh_req_held_after_prea", lambda f: Implies(
        And(f.g.rreq_prev, Not(f.b(bm.refresh_req))), at_least(f.g.a_close, BV(0, 1), hold)))
    tv = {}
    for name, txxd in (("twtpcon", h.settings.timing.tWR + math.ceil(wl / d) + t["tCCD"]), ("trccon", t["tRC"]),
                       ("trascon", t["tRAS"])):
        mod = L[name]
        locs = [lc for lc in h.cap.calls["tXXDController.__init__"] if lc["self"] is mod][0]
        tv[name] = TimerView(mod, locs, txxd)
    c.invariant("twtp_timer_tracks_write_age", lambda f: tv["twtpcon"].inv(f, f.g.a_wr, d))
    c.invariant("trc_timer_tracks_activate_age", lambda f: tv["trccon"].inv(f, f.g.a_act, d))
    c.invariant("tras_timer_tracks_activate_age", lambda f: tv["trascon"].inv(f, f.g.a_act, d))
    fsm = bm.fsm
    K = lambda cycles: cycles * d - (d - 1)
    trp_chain = (["TRP"] + fsm_chain(fsm, "TRP", "ACTIVATE")) if "TRP" in fsm.encoding else []
    trcd_chain = (["TRCD"] + fsm_chain(fsm, "TRCD", "REGULAR")) if "TRCD" in fsm.encoding else []
    wr_total = wl + burst + R["tWR"]          # clocks from WR command to the earliest legal precharge

    ptime = h.settings.timing.tWR + math.ceil(wl / d) + t["tCCD"]
    c.invariant("ages_in_range", lambda f: And(ULE(f.g.a_act, BV(MAXA, AW)), ULE(f.g.a_wr, BV(MAXA, AW)),
                                               ULE(f.g.a_close, BV(MAXA, AW))))

    def closed_long_enough(f, cycles):
        """the close is `cycles` controller cycles old; if it was a WRA the write is write-recovery + `cycles` old"""
        return And(at_least(f.g.a_close, BV(0, 1), K(cycles)),
                   Implies(f.g.close_was_wra, at_least(f.g.a_wr, BV(0, 1), K(ptime + cycles))))
    for j, st in enumerate(trp_chain):
        c.invariant("trp_chain_%d" % j, lambda f, j=j, st=st: Implies(state_is(f, fsm, st), closed_long_enough(f, j + 1)))
    c.invariant("activate_state_after_trp", lambda f: Implies(state_is(f, fsm, "ACTIVATE"), closed_long_enough(f, t["tRP"])))
    c.invariant("regular_closed_after_trp", lambda f: Implies(
        And(state_is(f, fsm, "REGULAR"), Not(f.g.open)), closed_long_enough(f, t["tRP"])))
    c.invariant("refresh_closed_after_trp", lambda f: Implies(
        And(state_is(f, fsm, "REFRESH"), Not(f.g.open), Not(f.g.seen)), closed_long_enough(f, t["tRP"])))
    c.invariant("refresh_seen_means_closed_by_prea", lambda f: Implies(
        And(state_is(f, fsm, "REFRESH"), f.g.seen), And(Not(f.g.open), Not(f.g.close_was_wra))))
    for j, st in enumerate(trcd_chain):
        c.invariant("trcd_chain_%d" % j, lambda f, j=j, st=st: Implies(
            state_is(f, fsm, st), at_least(f.g.a_act, BV(0, 1), K(j + 1))))
    c.invariant("regular_open_after_trcd", lambda f: Implies(
        And(state_is(f, fsm, "REGULAR"), f.g.open), at_least(f.g.a_act, BV(0, 1), K(t["tRCD"]))))
    # AUTOPRECHARGE state: entered by an RDA/WRA, nothing to add (tRP is counted from the command, see ASSUMPTIONS)
    # ---- requirements (DRAM clocks, with the phase of the new command)
    c.ensures("tRCD_activate_to_column", lambda f: Implies(x.rw(f), at_least(f.g.a_act, ph(f), R["tRCD"])))
    c.ensures("tRP_close_to_activate", lambda f: Implies(x.act(f), at_least(f.g.a_close, ph(f), R["tRP"])))
    c.ensures("tRP_plus_write_recovery_after_WRA", lambda f: Implies(
        And(x.act(f), f.g.close_was_wra), at_least(f.g.a_wr, ph(f), wr_total + R["tRP"])))
    if R.get("tRAS"):
        c.ensures("tRC_activate_to_activate", lambda f: Implies(x.act(f), at_least(f.g.a_act, ph(f), R["tRAS"] + R["tRP"])))
        c.ensures("tRAS_activate_to_explicit_precharge", lambda f: Implies(x.pre(f), at_least(f.g.a_act, ph(f), R["tRAS"])))
        c.ensures("tRAS_activate_to_refresh_precharge_all", lambda f: Implies(
            And(prea(f), f.g.open), at_least(f.g.a_act, BV(0, 1), R["tRAS"])))
    c.ensures("tWR_write_to_explicit_precharge", lambda f: Implies(x.pre(f), at_least(f.g.a_wr, ph(f), wr_total)))
    c.ensures("tWR_write_to_refresh_precharge_all", lambda f: Implies(
        And(prea(f), f.g.open), at_least(f.g.a_wr, BV(0, 1), wr_total)))
    c.cover("activate_then_column", lambda f: And(x.rw(f), f.g.a_act != BV(MAXA, AW)), within=60)
    c.cover("precharge_after_write", lambda f: And(x.pre(f), f.g.a_wr != BV(MAXA, AW)), within=80)
    c.cover("activate_after_close", lambda f: And(x.act(f), f.g.a_close != BV(MAXA, AW)), within=80)
    return c


def _R(**kw):
    base = dict(tRP=6, tRCD=6, tWR=6, tRAS=14, tCCD=4, tRFC=20)
    base.update(kw)
    return base


BMT_CONFIGS_QUICK = [
    dict(nphases=4, memtype="DDR3", cl=6, cwl=5, R=_R(), cmd_buffer_depth=4),
    dict(nphases=4, memtype="DDR3", cl=11, cwl=8, R=_R(tRP=11, tRCD=11, tWR=12, tRAS=28), cmd_buffer_depth=4),   # DDR3-1600-like: tRAS > tRCD+3 cycles
    dict(nphases=2, memtype="DDR2", cl=5, cwl=4, R=_R(tRP=5, tRCD=5, tWR=6, tRAS=18, tCCD=2), cmd_buffer_depth=4, address_align=2),
    dict(nphases=1, memtype="SDR", cl=2, cwl=None, R=_R(tRP=2, tRCD=2, tWR=2, tRAS=5, tCCD=1), cmd_buffer_depth=4,
         address_align=0, with_auto_precharge=False),
]
BMT_CONFIGS_THOROUGH = BMT_CONFIGS_QUICK + [
    dict(nphases=4, memtype="DDR4", cl=16, cwl=12, R=_R(tRP=17, tRCD=17, tWR=18, tRAS=39, tCCD=6), cmd_buffer_depth=8),
    dict(nphases=2, memtype="DDR", cl=3, cwl=None, R=_R(tRP=3, tRCD=3, tWR=3, tRAS=8, tCCD=1), cmd_buffer_depth=4, address_align=2),
    dict(nphases=8, memtype="LPDDR4", cl=14, cwl=8, R=_R(tRP=17, tRCD=15, tWR=15, tRAS=34, tCCD=8), cmd_buffer_depth=4,
         address_align=4, rowbits=14),
    dict(nphases=1, memtype="SDR", cl=3, cwl=None, R=_R(tRP=3, tRCD=3, tWR=2, tRAS=7, tCCD=1), cmd_buffer_depth=8,
         address_align=0, cmd_buffer_buffered=True),
]


_CT = dict(bankbits=1, cmd_buffer_depth=4, databits=4, dfi_databits=8)


def _ct(**kw):
    d = dict(_CT)
    d.update(kw)
    return d


CT_CONFIGS_QUICK = [
    _ct(nphases=4, memtype="DDR3", cl=6, cwl=5, read_latency=5, write_latency=1, rdphase=2, wrphase=3,
        R=dict(tRP=6, tRCD=6, tWR=6, tRAS=14, tCCD=4, tRFC=20, tRRD=(4, 4), tWTR=(4, 3), tFAW=(None, 18)), cover_refresh=True),
    _ct(nphases=4, memtype="DDR3", cl=11, cwl=8, read_latency=6, write_latency=2, rdphase=1, wrphase=2, bankbits=2,
        R=dict(tRP=11, tRCD=11, tWR=12, tRAS=28, tCCD=4, tRFC=88, tRRD=(4, 6), tWTR=(4, 6), tFAW=(None, 32), tZQCS=(64, 64)),
        refresh_zqcs_freq=1e6),                                        # DDR3-1600-like: tRAS > tRCD + 3 cycles
    _ct(nphases=2, memtype="DDR2", cl=5, cwl=4, read_latency=5, write_latency=2, rdphase=1, wrphase=0,
        R=dict(tRP=5, tRCD=5, tWR=6, tRAS=18, tCCD=2, tRFC=30, tRRD=(None, 3), tWTR=(None, 3), tFAW=None)),
    _ct(nphases=1, memtype="SDR", cl=2, cwl=None, read_latency=4, write_latency=0, rdphase=0, wrphase=0,
        R=dict(tRP=2, tRCD=2, tWR=2, tRAS=5, tCCD=1, tRFC=7, tRRD=(None, 2), tWTR=(2, None), tFAW=None)),
]
CT_CONFIGS_THOROUGH = CT_CONFIGS_QUICK + [
    _ct(nphases=4, memtype="DDR4", cl=16, cwl=12, read_latency=7, write_latency=3, rdphase=3, wrphase=0, bankbits=2,
        R=dict(tRP=17, tRCD=17, tWR=18, tRAS=39, tCCD=6, tRFC=100, tRRD=(4, 6), tWTR=(4, 9), tFAW=(28, 36), tZQCS=(128, 96)),
        refresh_zqcs_freq=1e6),
    _ct(nphases=2, memtype="DDR", cl=3, cwl=None, read_latency=3, write_latency=0, rdphase=0, wrphase=1,
        R=dict(tRP=3, tRCD=3, tWR=3, tRAS=8, tCCD=1, tRFC=14, tRRD=(None, 2), tWTR=(2, None), tFAW=None)),
    _ct(nphases=4, memtype="DDR3", cl=7, cwl=6, read_latency=5, write_latency=1, rdphase=0, wrphase=1, nranks=2,
        R=dict(tRP=7, tRCD=7, tWR=8, tRAS=19, tCCD=4, tRFC=59, tRRD=(4, 5), tWTR=(4, 4), tFAW=(None, 24))),
]


def tasks(tier):
    out = []
    for cfg in (BMT_CONFIGS_QUICK if tier == "quick" else BMT_CONFIGS_THOROUGH):
        out.append(dict(fn="bm_timing_contract", cfg=cfg, modes=["inductive", "cover", "difftest"], weight=5,
                        search_depth=60))
    for cfg in (CT_CONFIGS_QUICK if tier == "quick" else CT_CONFIGS_THOROUGH):
        out.append(dict(fn="ctrl_timing_contract", cfg=cfg, modes=["inductive", "window", "cover", "difftest"], weight=20,
                        search_depth=60, difftest_cycles=100 if tier == "quick" else 1000, timeout_ms=900000))
    return out


# ----------------------------------------------------------------------------------------------------------------------
# multiplexer / refresher level, on the real controller (C02's controller contract supplies the supporting invariants)
# ----------------------------------------------------------------------------------------------------------------------

def ctrl_cfg(cfg):
    d = cfg["nphases"]
    R = cfg["R"]
    t = dict(tRP=cyc_ns(R["tRP"], d), tRCD=cyc_ns(R["tRCD"], d), tWR=cyc_ns(R["tWR"], d),
             tRAS=cyc_ns(R["tRAS"], d), tRC=cyc_ns(R["tRAS"] + R["tRP"], d),
             tCCD=cyc_ck(R["tCCD"], d), tRFC=cyc_ns(R["tRFC"], d),
             tRRD=max(cyc_ck(R["tRRD"][0], d), cyc_ns(R["tRRD"][1], d)) if R.get("tRRD") else None,
             tWTR=max(cyc_ck(R["tWTR"][0], d), cyc_ns(R["tWTR"][1], d)),
             tFAW=max(cyc_ck(R["tFAW"][0], d), cyc_ns(R["tFAW"][1], d)) if R.get("tFAW") else None,
             tZQCS=max(cyc_ck(R["tZQCS"][0], d), cyc_ns(R["tZQCS"][1], d)) if R.get("tZQCS") else None)
    kw = {k: v for k, v in cfg.items() if k not in ("R", "cover_refresh")}
    kw.update(t)
    return kw, t


def ctrl_timing_contract(cfg):
    """finite-window timing obligations on the real controller, from ANY state satisfying the C02 invariants: after an
    event at (cycle 0, phase p) no conflicting command is steered to (cycle j, phase q) with j*d + q - p < R."""
    kw, t = ctrl_cfg(cfg)
    c = c02.ctrl_contract(kw)
    c.name = "ControllerTiming"
    c.cfg = cfg
    c.ensures_.clear()
    c.covers.clear()
    P = c.parts
    h, steered, d = P["h"], P["steered"], cfg["nphases"]
    s = h.settings
    R = cfg["R"]
    nph = d
    wl = s.phy.cwl
    burst = (burst_lengths[s.phy.memtype] // 2) if s.phy.memtype != "SDR" else d
    babits = len(P["rc"].ba)

    def kind_is(v, p, kinds, bank=None):
        k, ba, a = steered(v, p)
        cl = Or(*[k == BV(kk, 3) for kk in kinds])
        if bank is not None:
            cl = And(cl, ba == BV(bank, babits))
        return cl

    def a10(v, p):
        return bit(steered(v, p)[2], 10)

    def spacing(name, k1, k2, Rclk, bank=None, e1_extra=None, e2_extra=None):
        """after a k1-command, no k2-command closer than Rclk DRAM clocks"""
        if not Rclk or Rclk <= 1:
            return
        N = (Rclk + d - 2) // d          # last cycle offset that can still be too early

        def goal(vs):
            cl = []
            for p in range(nph):
                e1 = kind_is(vs[0], p, k1, bank)
                if e1_extra is not None:
                    e1 = And(e1, e1_extra(vs[0], p))
                for j in range(0, N + 1):
                    for q in range(nph):
                        dist = j * d + q - p
                        if dist <= 0 or dist >= Rclk:
                            continue
                        e2 = kind_is(vs[j], q, k2, bank)
                        if e2_extra is not None:
                            e2 = And(e2, e2_extra(vs[j], q))
                        cl.append(Implies(e1, Not(e2)))
            return And(*cl) if cl else z3.BoolVal(True)
        c.window(name, goal, N)
    ACT, PRE, RD, WR, PREA, REF, ZQ = [1], [2], [3], [4], [5], [6], [7]
    ANY = [1, 2, 3, 4, 5, 6, 7]
    spacing("tCCD_column_to_column", RD + WR, RD + WR, R["tCCD"])
    if R.get("tRRD"):
        spacing("tRRD_activate_to_activate", ACT, ACT, max(x_ or 0 for x_ in R["tRRD"]))
    spacing("tWTR_write_to_read", WR, RD, wl + burst + max(x_ or 0 for x_ in R["tWTR"]))
    spacing("tRP_precharge_all_to_refresh_or_zqcs", PREA, REF + ZQ + ACT, R["tRP"])
    spacing("tRFC_refresh_to_any_command", REF, ANY, R["tRFC"])
    if R.get("tZQCS"):
        spacing("tZQCS_calibration_to_any_command", ZQ, ANY, max(x_ or 0 for x_ in R["tZQCS"]))
    # per-bank spacings re-checked on the controller with the real steering phases (bank machine 0)
    spacing("b0.tRCD_activate_to_column", ACT, RD + WR, R["tRCD"], bank=0)
    spacing("b0.tRAS_activate_to_precharge", ACT, PRE, R["tRAS"], bank=0)
    spacing("b0.tRC_activate_to_activate", ACT, ACT, R["tRAS"] + R["tRP"], bank=0)
    spacing("b0.tRP_precharge_to_activate", PRE, ACT, R["tRP"], bank=0)
    spacing("b0.tRP_auto_precharge_to_activate", RD + WR, ACT, R["tRP"], bank=0, e1_extra=a10)
    spacing("b0.tWR_write_to_precharge", WR, PRE, wl + burst + R["tWR"], bank=0)
    spacing("b0.tWR_tRP_auto_precharge_write_to_activate", WR, ACT, wl + burst + R["tWR"] + R["tRP"], bank=0, e1_extra=a10)
    # precharge-all from refresh against bank 0's activate / write (any bank: refresher PREA closes all)
    N_ras = (R["tRAS"] + d - 2) // d

    def prea_goal(Rclk, k1):
        N = (Rclk + d - 2) // d

        def goal(vs):
            cl = []
            for p in range(nph):
                e1 = kind_is(vs[0], p, k1, 0)
                for j in range(0, N + 1):
                    dist = j * d - p
                    if 0 < dist < Rclk:
                        cl.append(Implies(e1, Not(kind_is(vs[j], 0, PREA))))
            return And(*cl) if cl else z3.BoolVal(True)
        return goal, N
    g, N = prea_goal(R["tRAS"], ACT)
    c.window("b0.tRAS_activate_to_refresh_precharge_all", g, N)
    g, N = prea_goal(wl + burst + R["tWR"], WR)
    c.window("b0.tWR_write_to_refresh_precharge_all", g, N)
    if t["tFAW"]:
        Rf = max(x_ or 0 for x_ in R["tFAW"])
        N = (Rf + d - 2) // d

        def faw_goal(vs):
            cl = []
            w = 4
            for p in range(nph):
                e1 = kind_is(vs[0], p, ACT)
                for j in range(0, N + 1):
                    for q in range(nph):
                        dist = j * d + q - p
                        if dist <= 0 or dist >= Rf:
                            continue
                        between = []
                        for jj in range(0, j + 1):
                            for qq in range(nph):
                                dd = jj * d + qq - p
                                if 0 < dd < dist:
                                    between.append(If_(kind_is(vs[jj], qq, ACT), BV(1, w), BV(0, w)))
                        cnt = z3.Sum(between) if len(between) > 1 else (between[0] if between else BV(0, w))
                        cl.append(Implies(And(e1, kind_is(vs[j], q, ACT)), ULT(cnt, BV(3, w))))
            return And(*cl) if cl else z3.BoolVal(True)
        c.window("tFAW_four_activate_window", faw_goal, N)
    anyp = lambda v, kinds, bank=None: Or(*[kind_is(v, p, kinds, bank) for p in range(nph)])
    c.cover("activate", lambda f: anyp(f, ACT), within=40)
    c.cover("write_bank0", lambda f: anyp(f, WR, 0), within=50)
    c.cover("read", lambda f: anyp(f, RD), within=50)
    c.cover("explicit_precharge_bank0", lambda f: anyp(f, PRE, 0), within=70)
    if cfg.get("cover_refresh"):
        c.cover("refresh_command", lambda f: anyp(f, REF), within=112, after=103)
    return c


def h_cap_calls(h, name):
    return h.cap_calls.get(name, []) if hasattr(h, "cap_calls") else []
