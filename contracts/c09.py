"""C09 -- AXI port: protocol-correct responses and memory semantics.

Real LiteDRAMAXI2Native (W and R paths with LiteX AXIBurst2Beat, buffers, ID FIFOs, arbiter, optional read-modify-write FSM
as elaborated) between an AXI4 MASTER (VALID and payload stable until READY on AW/W/AR; legal bursts FIXED/INCR/WRAP;
WLAST on the last beat; B/R always eventually accepted -- READY free) and the NativePortSpec memory ENVIRONMENT.
Watched byte (symbolic byte address, initial content):
  * one B per write burst, in order, carrying the burst's ID, not before all its data beats were handed to the port;
  * R beats: per burst len+1 beats in order, burst's ID, LAST exactly on the final beat, no beat without a burst;
  * a read whose life time does not overlap a write of the watched byte returns the byte written by the last write whose B
    was delivered (read-after-B); with read-modify-write, partial strobes leave the other bytes intact;
  * write data present whenever the memory side takes it.
End-to-end clauses by BOUNDED unrolling from reset (labelled bounded).  Beat addresses are specified from the AXI4 rules
(FIXED / INCR / WRAP), independently of AXIBurst2Beat.
"""
import z3
from .common import *
from vc.engine import Contract
from litedram.frontend.axi import LiteDRAMAXI2Native, LiteDRAMAXIPort
from .nativeport import add_memory_env, byte_at, bit_at, bv1, Queue

PROPERTY = "C09"
LEVEL = "other"
FUNCTIONS = ["litedram.frontend.axi:LiteDRAMAXI2NativeW.__init__", "litedram.frontend.axi:LiteDRAMAXI2NativeR.__init__",
             "litedram.frontend.axi:LiteDRAMAXI2Native.__init__", "litex.soc.interconnect.axi:AXIBurst2Beat.__init__"]
ASSUMPTIONS = [
    "end-to-end clauses: bounded unrolling from reset to the stated depth, all five AXI channels and the memory side "
    "symbolic (never counted as proved); memory environment = NativePortSpec with at most Q outstanding commands",
    "AXI master: payload stable while VALID & ~READY; burst length <= LMAX+1 beats, size = full bus width, WRAP bursts of 2 "
    "beats aligned; W beats are issued no earlier than their AW is issued; at most 2 write bursts / 2 read bursts "
    "outstanding; at most one in-flight burst writes the watched byte",
    "the memory side takes write data no earlier than 2 cycles after accepting the command (the core's minimum is larger: "
    "command FIFO + buffer + write_latency+1); the read-modify-write path relies on it",
    "per configuration (buffer depths, base address, with / without read-modify-write)",
    "reservation lemmas (AXI2NativeW.reservation, AXI2NativeR.reservation): proved on the W / R path modules taken alone "
    "(cmd_grant free, i.e. any arbitration), without the read-modify-write FSM; environment fact used by the read lemma: "
    "the memory side returns read data only for outstanding reads (guaranteed by the core, C01); the write-data-on-offer "
    "bound of 2 cycles is why the bounded clauses assume the memory side strobes write data >= 2 cycles after the command",
    "burst-to-beat address generation is PROVED (induction, every length 1..256, size, type, start address) under the AXI4 "
    "rules as preconditions: WRAP bursts of 2/4/8/16 beats with aligned start, no burst crossing a 4 KB boundary (beyond "
    "it the generator's 13-bit signed offset register overflows), burst payload held until its last beat",
]
EXPLANATION = ("bounded contract check on the real AXI bridge with an AXI4 master model and the NativePortSpec environment; "
               "burst->beat generator, write buffer reservation and read buffer reservation (incl. ID queue occupancy) proved by "
               "induction on the real W / R path modules")

AW_, DW_, IDW = 6, 16, 1


class AxiHarness(Module):
    def __init__(self, cfg):
        self.axi = LiteDRAMAXIPort(data_width=DW_, address_width=AW_, id_width=IDW)
        self.port = LiteDRAMNativePort("both", AW_ - 1, DW_)
        from vc.shims import capture_locals
        from litedram.frontend.axi import LiteDRAMAXI2NativeW
        with capture_locals(LiteDRAMAXI2NativeW.__init__) as cap:
            self.submodules.br = LiteDRAMAXI2Native(self.axi, self.port, w_buffer_depth=cfg.get("wdepth", 2),
                                                    r_buffer_depth=cfg.get("rdepth", 2), base_address=cfg.get("base", 0),
                                                    with_read_modify_write=cfg.get("rmw", False))
        self.WL = cap.of(self.br.write)


class AxiWHarness(Module):
    def __init__(self, cfg):
        from vc.shims import capture_locals
        from migen.genlib import fifo as mfifo
        from litedram.frontend.axi import LiteDRAMAXI2NativeW
        self.axi = LiteDRAMAXIPort(data_width=DW_, address_width=AW_, id_width=IDW)
        self.port = LiteDRAMNativePort("both", AW_ - 1, DW_)
        with capture_locals(LiteDRAMAXI2NativeW.__init__, mfifo.SyncFIFO.__init__) as cap:
            self.submodules.w = LiteDRAMAXI2NativeW(self.axi, self.port, buffer_depth=cfg.get("wdepth", 2),
                                                    base_address=cfg.get("base", 0), with_read_modify_write=False)
        self.cap, self.L = cap, cap.of(self.w)


def w_reservation_contract(cfg):
    """lemma (unbounded, induction on the real LiteDRAMAXI2NativeW incl. its real buffered data FIFO): the write path's
    reservation counter never exceeds the number of buffered data beats, hence a native write command is only issued when
    its data beat is already buffered, the data of every issued command is on offer whenever the memory side may take it
    (M1 of the native-port contract) and no data beat is handed over ahead of its command."""
    from .fifo_lemma import fifo_parts, add_fifo_invariants, inner_sync_fifo
    h = AxiWHarness(cfg)
    axi, port, L = h.axi, h.port, h.L
    free = [axi.aw.valid, axi.aw.addr, axi.aw.burst, axi.aw.len, axi.aw.size, axi.aw.id, axi.w.valid, axi.w.data,
            axi.w.strb, axi.w.last, axi.b.ready, port.cmd.ready, port.wdata.ready, h.w.cmd_grant]
    c = Contract("AXI2NativeW.reservation", h, free, cfg=cfg)
    wb, wbl = L["w_buffer"], L["w_buffer_level"]
    inner, wrapper = inner_sync_fifo(wb)
    P = fifo_parts(c, inner, h.cap)
    add_fifo_invariants(c, P, "w_buffer")
    W = max(len(wb.level), len(wbl)) + 2
    cmdacc = lambda f: And(f.b(port.cmd.valid), f.b(port.cmd.ready))
    dacc = lambda f: And(f.b(port.wdata.valid), f.b(port.wdata.ready))
    # ghost: native write commands accepted minus data beats handed over
    c.ghost("owed", W, 0, lambda f: f.g.owed + If_(cmdacc(f), BV(1, W), BV(0, W)) - If_(dacc(f), BV(1, W), BV(0, W)))
    c.invariant("reservation_counter_is_commands_minus_data_and_within_the_buffered_beats", lambda f: And(
        zext(f(wbl), W) == f.g.owed, ULE(zext(f(wbl), W), zext(f(wb.level), W)),
        ULE(zext(f(wb.level), W), BV(cfg.get("wdepth", 2) + 1, W)),
        z3.BoolVal(True)))
    c.ensures("every_native_command_is_a_write_issued_only_when_its_data_beat_is_buffered", lambda f: Implies(
        f.b(port.cmd.valid), And(f.b(port.cmd.we), ULT(zext(f(wbl), W), zext(f(wb.level), W)))))
    c.ensures("data_of_every_issued_command_is_buffered_and_offered_as_soon_as_it_heads_the_buffer", lambda f: And(
        ULE(f.g.owed, zext(f(wb.level), W)),
        f.b(port.wdata.valid) == And(f.b(wb.source.valid), Or(f.g.owed != 0, cmdacc(f)))))
    c.response("data_of_an_issued_command_on_offer_within_2_cycles", lambda f: f.g.owed != 0,
               lambda f: f.b(port.wdata.valid), 2)
    c.ensures("no_data_beat_ahead_of_its_command", lambda f: Implies(dacc(f), Or(f.g.owed != 0, cmdacc(f))))
    c.cover("two_commands_owing_data", lambda f: f.g.owed == 2, within=10)
    return c


class AxiRHarness(Module):
    def __init__(self, cfg):
        from vc.shims import capture_locals
        from migen.genlib import fifo as mfifo
        from litedram.frontend.axi import LiteDRAMAXI2NativeR
        self.axi = LiteDRAMAXIPort(data_width=DW_, address_width=AW_, id_width=IDW)
        self.port = LiteDRAMNativePort("both", AW_ - 1, DW_)
        with capture_locals(LiteDRAMAXI2NativeR.__init__, mfifo.SyncFIFO.__init__) as cap:
            self.submodules.r = LiteDRAMAXI2NativeR(self.axi, self.port, buffer_depth=cfg.get("rdepth", 2),
                                                    base_address=cfg.get("base", 0), with_read_modify_write=False)
        self.cap, self.L = cap, cap.of(self.r)


def r_reservation_contract(cfg):
    """lemma (unbounded, induction on the real LiteDRAMAXI2NativeR incl. its real buffered data FIFO and ID FIFO): the
    reservation counter equals reads in flight + buffered beats and never exceeds the buffer depth, so read data returned
    by the memory side (which does not wait for ready) always finds room, the ID FIFO holds exactly one entry per
    reserved beat (never overflows when a read command is issued, never empty when an R beat is offered)."""
    from .fifo_lemma import fifo_parts, add_fifo_invariants, inner_sync_fifo
    h = AxiRHarness(cfg)
    axi, port, L = h.axi, h.port, h.L
    depth = cfg.get("rdepth", 2)
    free = [axi.ar.valid, axi.ar.addr, axi.ar.burst, axi.ar.len, axi.ar.size, axi.ar.id, axi.r.ready,
            port.cmd.ready, port.rdata.valid, port.rdata.data, h.r.cmd_grant]
    c = Contract("AXI2NativeR.reservation", h, free, cfg=cfg)
    rb, rbl, idb = L["r_buffer"], L["r_buffer_level"], L["id_buffer"]
    inner, _ = inner_sync_fifo(rb)
    add_fifo_invariants(c, fifo_parts(c, inner, h.cap), "r_buffer")
    idin, _ = inner_sync_fifo(idb)
    add_fifo_invariants(c, fifo_parts(c, idin, h.cap), "id_buffer")
    W = max(len(rb.level), len(rbl), len(idb.level)) + 2
    cmdacc = lambda f: And(f.b(port.cmd.valid), f.b(port.cmd.ready))
    one = lambda b: If_(b, BV(1, W), BV(0, W))
    c.ghost("infl", W, 0, lambda f: f.g.infl + one(cmdacc(f)) - one(f.b(port.rdata.valid)))
    c.assume("memory_answers_only_outstanding_reads", lambda f: Implies(f.b(port.rdata.valid), f.g.infl != 0))
    c.invariant("reserved_beats_are_in_flight_plus_buffered_and_within_depth", lambda f: And(
        zext(f(rbl), W) == f.g.infl + zext(f(rb.level), W), ULE(zext(f(rbl), W), BV(depth, W)),
        ULE(f.g.infl, BV(depth, W)), ULE(zext(f(rb.level), W), BV(depth, W)),
        zext(f(idb.level), W) == zext(f(rbl), W)))
    c.ensures("every_native_command_is_a_read", lambda f: Implies(f.b(port.cmd.valid), Not(f.b(port.cmd.we))))
    c.ensures("returned_read_data_always_finds_room", lambda f: Implies(f.b(port.rdata.valid), f.b(port.rdata.ready)))
    c.ensures("id_queue_has_room_for_every_issued_read_and_an_entry_for_every_r_beat", lambda f: And(
        Implies(f.b(idb.sink.valid), f.b(idb.sink.ready)), Implies(f.b(axi.r.valid), f.b(idb.source.valid))))
    c.cover("buffer_fully_reserved", lambda f: And(f(rbl) == depth, f.g.infl == depth), within=3 * depth + 6)
    return c


def beat_word(addr, burst, i):
    """word address of beat i (0 or 1) of a burst with size = bus width (2 bytes), AXI4 rules"""
    w0 = z3.Extract(AW_ - 1, 1, addr)
    if i == 0:
        return w0
    incr = w0 + 1
    wrap = z3.Concat(z3.Extract(AW_ - 2, 1, w0), ~z3.Extract(0, 0, w0))        # 2-beat wrap: toggles word bit 0
    return If_(burst == 0, w0, If_(burst == 2, wrap, incr))


def axi_contract(cfg):
    h = AxiHarness(cfg)
    a, port = h.axi, h.port
    base, rmw = cfg.get("base", 0), cfg.get("rmw", False)
    LMAX = cfg.get("lmax", 1)
    aw, w, b, ar, r = a.aw, a.w, a.b, a.ar, a.r
    free = [aw.valid, aw.addr, aw.burst, aw.len, aw.size, aw.id, w.valid, w.data, w.strb, w.last, b.ready,
            ar.valid, ar.addr, ar.burst, ar.len, ar.size, ar.id, r.ready,
            port.cmd.ready, port.wdata.ready, port.rdata.valid, port.rdata.data]
    c = Contract("AXI2Native", h, free, cfg=cfg)
    BA = c.rigid("BA", AW_)                     # watched byte address
    init = c.rigid("init", 8)
    word = z3.Extract(AW_ - 1, 1, BA)
    lane = z3.Extract(0, 0, BA)
    c.assume("watched_byte_inside_window", lambda f: UGE(BA, BV(base, AW_)))
    A = word - BV(base >> 1, AW_ - 1)
    add_memory_env(c, port, "mem", A, lane, init, Q=cfg.get("Q", 2))
    G = lambda f, k: f.g["m." + k]
    hs = lambda ch: (lambda f: And(f.b(ch.valid), f.b(ch.ready)))
    awh, wh, bh, arh, rh = hs(aw), hs(w), hs(b), hs(ar), hs(r)

    def hold(name, ch, fields):
        c.ghost("m.h_" + name, "bool", False, lambda f: And(f.b(ch.valid), Not(f.b(ch.ready))))
        for fl in fields:
            sig = getattr(ch, fl)
            c.ghost("m.p_%s_%s" % (name, fl), len(sig), 0, lambda f, sig=sig: f(sig))
        c.assume("m.%s_held_until_ready" % name, lambda f: Implies(G(f, "h_" + name), And(
            f.b(ch.valid), *[f(getattr(ch, fl)) == G(f, "p_%s_%s" % (name, fl)) for fl in fields])))
    hold("aw", aw, ["addr", "burst", "len", "size", "id"])
    hold("ar", ar, ["addr", "burst", "len", "size", "id"])
    hold("w", w, ["data", "strb", "last"])

    def legal(ch):
        return lambda f: Implies(f.b(ch.valid), And(
            ULE(f(ch.len), BV(LMAX, 8)), f(ch.size) == 1, ULE(f(ch.burst), BV(2, 2)),
            Implies(f(ch.burst) == 2, And(f(ch.len) == 1, z3.Extract(0, 0, f(ch.addr)) == 0)),
            UGE(f(ch.addr), BV(base, AW_))))
    c.assume("m.aw_legal", legal(aw))
    c.assume("m.ar_legal", legal(ar))
    # ---- write bursts: queue of accepted AW not yet answered by B
    wq = Queue(c, "m.wq", 3 if cfg.get("scenario") == "b_stall" else 2, {"id": IDW, "len": 8, "addr": AW_, "burst": 2, "hitw": 1, "handed": 1},
               push=awh, push_vals=lambda f: {"id": f(aw.id), "len": f(aw.len), "addr": f(aw.addr), "burst": f(aw.burst),
                                              "hitw": BV(0, 1), "handed": BV(0, 1)}, pop=bh)
    c.assume("m.at_most_two_write_bursts_outstanding", lambda f: Implies(wq.full(f), Not(f.b(aw.valid))))
    # W beats belong to burst number wptr (0 = queue head) or, if wptr == count, to the AW currently being offered
    PW = 3
    c.ghost("m.wptr", PW, 0, lambda f: G(f, "wptr") + If_(And(wh(f), f.b(w.last)), BV(1, PW), BV(0, PW)) - If_(bh(f), BV(1, PW), BV(0, PW)))
    c.ghost("m.wbeat", 8, 0, lambda f: If_(wh(f), If_(f.b(w.last), BV(0, 8), G(f, "wbeat") + 1), G(f, "wbeat")))
    cntw = lambda f: zext(wq.cnt(f), PW)

    def cur_w(f, fld):
        """field of the burst the current W beat belongs to"""
        e0, e1 = wq.slot(f, fld, 0), wq.slot(f, fld, 1)
        off = {"id": aw.id, "len": aw.len, "addr": aw.addr, "burst": aw.burst}[fld]
        return If_(G(f, "wptr") == 0, If_(cntw(f) == 0, f(off), e0), If_(G(f, "wptr") == 1, If_(cntw(f) == 1, f(off), e1), f(off)))
    c.assume("m.w_beat_only_for_an_issued_burst", lambda f: Implies(f.b(w.valid), Or(
        ULT(G(f, "wptr"), cntw(f)), And(G(f, "wptr") == cntw(f), f.b(aw.valid)))))
    c.assume("m.wlast_on_final_beat", lambda f: Implies(f.b(w.valid), f.b(w.last) == (G(f, "wbeat") == cur_w(f, "len"))))
    wbeat_word = lambda f: If_(G(f, "wbeat") == 0, beat_word(cur_w(f, "addr"), cur_w(f, "burst"), 0),
                               beat_word(cur_w(f, "addr"), cur_w(f, "burst"), 1))
    whit = lambda f: And(wh(f), wbeat_word(f) == word, bit_at(f(w.strb), lane, 2) == 1)
    # watched byte: value visible to reads issued after the B of the last write; a write in flight makes it undetermined
    c.ghost("m.pend", "bool", False, lambda f: If_(whit(f), True, If_(And(bh(f), wq.head(f, "hitw") == 1), False, G(f, "pend"))))
    c.ghost("m.newv", 8, 0, lambda f: If_(whit(f), byte_at(f(w.data), lane, 2), G(f, "newv")))
    c.ghost("m.spec", 8, init, lambda f: If_(And(bh(f), wq.head(f, "hitw") == 1), G(f, "newv"), G(f, "spec")))
    # mark which queued burst wrote the watched byte (hitw of slot wptr), maintained on top of the generic queue shifting
    c.ghost("m.hit_slot", PW, 7, lambda f: If_(whit(f), G(f, "wptr"), G(f, "hit_slot")) - If_(
        And(bh(f), If_(whit(f), G(f, "wptr"), G(f, "hit_slot")) != 7), BV(1, PW), BV(0, PW)) if False else
        If_(bh(f), If_(If_(whit(f), G(f, "wptr"), G(f, "hit_slot")) == 7, BV(7, PW),
                       If_(whit(f), G(f, "wptr"), G(f, "hit_slot")) - 1), If_(whit(f), G(f, "wptr"), G(f, "hit_slot"))))
    head_hit = lambda f: Or(G(f, "hit_slot") == 0, And(whit(f), G(f, "wptr") == 0))
    # (the Queue's own hitw field is not used for the decision; head_hit is)
    c.ghosts["m.pend"] = c.ghosts["m.pend"]._replace(nxt=lambda f: If_(whit(f), True, If_(And(bh(f), head_hit(f)), False, G(f, "pend"))))
    c.ghosts["m.spec"] = c.ghosts["m.spec"]._replace(nxt=lambda f: If_(And(bh(f), head_hit(f)), If_(whit(f), byte_at(f(w.data), lane, 2), G(f, "newv")), G(f, "spec")))
    c.assume("m.one_writer_of_watched_byte_in_flight", lambda f: Implies(
        And(G(f, "pend"), f.b(w.valid), wbeat_word(f) == word, bit_at(f(w.strb), lane, 2) == 1),
        G(f, "hit_slot") == G(f, "wptr")))
    # data beats handed to the memory port, per burst, in order
    taken = lambda f: And(f.b(port.wdata.valid), f.b(port.wdata.ready))
    c.ghost("m.hptr", PW, 0, lambda f: G(f, "hptr") + If_(And(taken(f), G(f, "hbeat") == _slot_len(f, wq, G(f, "hptr"), aw)),
                                                         BV(1, PW), BV(0, PW)) - If_(bh(f), BV(1, PW), BV(0, PW)))
    c.ghost("m.hbeat", 8, 0, lambda f: If_(taken(f), If_(G(f, "hbeat") == _slot_len(f, wq, G(f, "hptr"), aw), BV(0, 8),
                                                        G(f, "hbeat") + 1), G(f, "hbeat")))
    c.bounded("b_only_for_an_outstanding_burst_with_its_id_after_its_data_was_handed_over", lambda f: Implies(
        f.b(b.valid), And(wq.nonempty(f), f(b.id) == wq.head(f, "id"), UGE(G(f, "hptr"), BV(1, PW)))))
    # ---- reads
    rq = Queue(c, "m.rq", 2, {"id": IDW, "len": 8, "addr": AW_, "burst": 2, "dirty": 1},
               push=arh, push_vals=lambda f: {"id": f(ar.id), "len": f(ar.len), "addr": f(ar.addr), "burst": f(ar.burst),
                                              "dirty": bv1(Or(G(f, "pend"), whit(f)))},
               pop=lambda f: And(rh(f), f.b(r.last)))
    c.assume("m.at_most_two_read_bursts_outstanding", lambda f: Implies(rq.full(f), Not(f.b(ar.valid))))
    c.ghost("m.rbeat", 8, 0, lambda f: If_(rh(f), If_(f.b(r.last), BV(0, 8), G(f, "rbeat") + 1), G(f, "rbeat")))
    c.ghost("m.dirty_any", "bool", False, lambda f: If_(And(rh(f), f.b(r.last), rq.cnt(f) == 1), False,
                                                        If_(rq.nonempty(f), Or(G(f, "dirty_any"), G(f, "pend"), whit(f)),
                                                            False)))
    rbeat_word = lambda f: If_(G(f, "rbeat") == 0, beat_word(rq.head(f, "addr"), rq.head(f, "burst"), 0),
                               beat_word(rq.head(f, "addr"), rq.head(f, "burst"), 1))
    c.bounded("r_beat_only_for_an_outstanding_burst_with_its_id_and_last_on_final_beat", lambda f: Implies(
        f.b(r.valid), And(rq.nonempty(f), f(r.id) == rq.head(f, "id"), f.b(r.last) == (G(f, "rbeat") == rq.head(f, "len")))))
    c.bounded("read_after_write_response_sees_the_written_byte", lambda f: Implies(
        And(f.b(r.valid), rq.nonempty(f), rbeat_word(f) == word, rq.head(f, "dirty") == 0, Not(G(f, "dirty_any")),
            Not(G(f, "pend")), Not(whit(f))),
        byte_at(f(r.data), lane, 2) == G(f, "spec")))
    c.bounded("write_data_present_when_memory_takes_it", lambda f: Implies(f.b(port.wdata.ready), f.b(port.wdata.valid)))
    sc = cfg.get("scenario")
    if cfg.get("single_beat_bursts"):
        # excludes exactly the pattern of known finding C09-rmw-stale-read-inside-a-burst (a partial-strobe beat that is
        # not the first beat of its burst)
        c.assume("scenario.write_bursts_have_one_beat", lambda f: Implies(f.b(aw.valid), f(aw.len) == 0))
    if sc in ("write_only", "b_stall"):
        c.assume("scenario.no_reads", lambda f: Not(f.b(ar.valid)))
    if sc == "read_only":
        c.assume("scenario.no_writes", lambda f: And(Not(f.b(aw.valid)), Not(f.b(w.valid))))
    # every burst whose last data beat was handed to the port is owed a response: none may be dropped
    resp_buffer = h.WL["resp_buffer"]
    w_buffer = h.br.write.w_buffer
    last_handed = lambda f: And(taken(f), f.b(w_buffer.source.last))
    c.ghost("m.owed_b", 4, 0, lambda f: G(f, "owed_b") + If_(last_handed(f), BV(1, 4), BV(0, 4)) - If_(bh(f), BV(1, 4), BV(0, 4)))
    c.bounded("no_write_response_is_dropped", lambda f: zext(f(resp_buffer.level), 4) == G(f, "owed_b"))
    if sc == "b_stall":
        c.assume("scenario.single_beat_bursts_and_stalled_b", lambda f: And(
            Not(f.b(b.ready)), Implies(f.b(aw.valid), f(aw.len) == 0), f.b(port.cmd.ready)))
    if sc == "single":
        c.assume("scenario.one_transaction_at_a_time", lambda f: And(
            Implies(Or(wq.nonempty(f), rq.nonempty(f)), And(Not(f.b(aw.valid)), Not(f.b(ar.valid)))),
            Not(And(f.b(aw.valid), f.b(ar.valid))), f.b(b.ready), f.b(r.ready)))
    c.cover("read_of_watched_byte_after_write_response", lambda f: And(
        f.b(r.valid), rbeat_word(f) == word, rq.head(f, "dirty") == 0, Not(G(f, "dirty_any")), G(f, "spec") != init),
        within=cfg.get("depth", 16))
    c.cover("a_write_response", lambda f: bh(f), within=12)
    return c


def _walk(m):
    yield m
    for _n, s_ in getattr(m, "_submodules", []):
        yield from _walk(s_)


def _slot_len(f, wq, ptr, aw):
    return If_(ptr == 0, wq.slot(f, "len", 0), If_(ptr == 1, wq.slot(f, "len", 1), BV(255, 8)))


CFGS = [dict(), dict(rmw=True, base=0x10), dict(base=0x8, wdepth=4, rdepth=4)]


# ---- burst -> beat address generator (proved for every burst length / size / type) ------------------------------------------

class B2BHarness(Module):
    def __init__(self, cfg):
        from litex.soc.interconnect.axi import AXIStreamInterface, ax_description, AXIBurst2Beat
        from vc.shims import capture_locals
        aw = cfg.get("address_width", 16)
        self.burst = AXIStreamInterface(layout=ax_description(aw), id_width=cfg.get("id_width", 2))
        self.beat = AXIStreamInterface(layout=ax_description(aw), id_width=cfg.get("id_width", 2))
        with capture_locals(AXIBurst2Beat.__init__) as cap:
            self.submodules.b2b = AXIBurst2Beat(self.burst, self.beat)
        self.L = cap.of(self.b2b)


def burst2beat_contract(cfg):
    """LiteX AXIBurst2Beat as used by both AXI channels of the bridge: beat i of a burst carries the AXI4 address of beat i
    (FIXED: start; INCR: start + i*size; WRAP: wraps inside the aligned window of (len+1)*size bytes), the burst's ID,
    first / last on beats 0 / len, exactly len+1 beats, burst.ready only with the accepted last beat -- by induction, for
    every start address, length (1..256 beats), size and burst type"""
    h = B2BHarness(cfg)
    bu, be, L = h.burst, h.beat, h.L
    AW = len(bu.addr)
    free = [bu.valid, bu.addr, bu.burst, bu.len, bu.size, bu.id, be.ready]
    c = Contract("AXIBurst2Beat", h, free, cfg=cfg)
    cnt, off = L["beat_count"], L["beat_offset"]
    taken = lambda f: And(f.b(be.valid), f.b(be.ready))
    # AXI master: a burst is held (valid and payload) until its last beat has been accepted
    c.ghost("busy", "bool", False, lambda f: If_(taken(f), Not(f.b(be.last)), Or(f.g.busy, f.b(bu.valid))))
    for nm, sig in (("addr", bu.addr), ("burst", bu.burst), ("len", bu.len), ("size", bu.size), ("id", bu.id)):
        c.ghost("p_" + nm, len(sig), 0, lambda f, sig=sig: f(sig))
    c.assume("axi.burst_held_until_its_last_beat_is_accepted", lambda f: Implies(f.g.busy, And(
        f.b(bu.valid), f(bu.addr) == f.g.p_addr, f(bu.burst) == f.g.p_burst, f(bu.len) == f.g.p_len,
        f(bu.size) == f.g.p_size, f(bu.id) == f.g.p_id)))
    W = AW + 2
    size = lambda f: zext(f(bu.size), W)
    ln = lambda f: zext(f(bu.len), W)
    B = lambda f: BV(1, W) << size(f)
    is_incr = lambda f: f(bu.burst) == 1
    is_wrap = lambda f: f(bu.burst) == 2
    c.assume("axi4.wrap_bursts_have_2_4_8_16_beats_and_an_aligned_start", lambda f: Implies(is_wrap(f), And(
        Or(*[f(bu.len) == v for v in (1, 3, 7, 15)]), (zext(f(bu.addr), W) & (B(f) - 1)) == 0)))
    c.assume("axi4.burst_does_not_cross_a_4k_boundary", lambda f: Implies(is_incr(f), ULE(
        (zext(f(bu.addr), W + 8) & 0xFFF) + ((zext(f(bu.len), W + 8) + 1) << zext(f(bu.size), W + 8)), BV(4096, W + 8))))
    c.assume("axi4.burst_type_not_reserved", lambda f: f(bu.burst) != 3)
    c.ghost("i", 9, 0, lambda f: If_(taken(f), If_(f.b(be.last), BV(0, 9), f.g.i + 1), f.g.i))

    def spec_addr(f, i):
        a = zext(f(bu.addr), W)
        step = zext(i, W) << size(f)
        mask = (ln(f) << size(f)) | (B(f) - 1)
        wrapped = (a & ~mask) | ((a + step) & mask)
        return If_(is_incr(f), a + step, If_(is_wrap(f), wrapped, a))
    sx = lambda f: z3.SignExt(W - len(off), f(off)) if W > len(off) else z3.Extract(W - 1, 0, f(off))
    c.invariant("beat_counter_is_the_beat_index", lambda f: And(zext(f(cnt), 9) == f.g.i, ULE(f.g.i, zext(f(bu.len), 9)) if True else True))
    c.invariant("offset_register_is_the_axi4_offset_of_beat_i", lambda f: Implies(
        Or(f.g.busy, f.b(bu.valid)), z3.Extract(AW - 1, 0, zext(f(bu.addr), W) + sx(f)) == z3.Extract(AW - 1, 0, spec_addr(f, f.g.i))))
    c.invariant("idle_between_bursts", lambda f: Implies(Not(f.g.busy), And(f.g.i == 0, f(off) == 0)))
    c.ensures("beat_i_carries_the_axi4_address_of_beat_i", lambda f: Implies(
        f.b(be.valid), f(be.addr) == z3.Extract(AW - 1, 0, spec_addr(f, f.g.i))))
    c.ensures("first_last_and_id", lambda f: Implies(f.b(be.valid), And(
        f.b(be.first) == (f.g.i == 0), f.b(be.last) == (f.g.i == zext(f(bu.len), 9)), f(be.id) == f(bu.id))))
    c.ensures("burst_consumed_exactly_with_its_last_beat", lambda f: f.b(bu.ready) == And(f.b(be.ready), f.b(be.last)))
    c.ensures("beats_only_for_a_presented_burst", lambda f: Implies(f.b(be.valid), Or(f.b(bu.valid), f.g.busy)))
    c.cover("wrap_burst_wraps", lambda f: And(is_wrap(f), taken(f), f.g.i == 3, ULT(f(be.addr), f(bu.addr))), within=8)
    c.cover("long_incr_burst", lambda f: And(is_incr(f), taken(f), f.g.i == 5), within=10)
    return c


# ---- native read-modify-write scenarios (bounded) ---------------------------------------------------------------------------

def _native_rmw(burst, size, beats, rmw=True, start=0):
    """beats: list of (data16, strb2); one write burst at byte address 0, then a read of word 0"""
    from migen.sim import run_simulation
    axi = LiteDRAMAXIPort(data_width=16, address_width=6, id_width=1)
    port = LiteDRAMNativePort("both", 5, 16)
    class H(Module):
        def __init__(self):
            self.submodules.br = LiteDRAMAXI2Native(axi, port, w_buffer_depth=4, r_buffer_depth=4, with_read_modify_write=rmw)
    h = H()
    mem = {0: 0x68f7, 1: 0x1234}
    res = {}
    def master():
        yield axi.b.ready.eq(1); yield axi.r.ready.eq(1)
        yield axi.aw.valid.eq(1); yield axi.aw.addr.eq(start); yield axi.aw.burst.eq(burst); yield axi.aw.len.eq(len(beats) - 1); yield axi.aw.size.eq(size)
        yield
        while not (yield axi.aw.ready): yield
        yield axi.aw.valid.eq(0)
        for i, (d, s) in enumerate(beats):
            yield axi.w.valid.eq(1); yield axi.w.data.eq(d); yield axi.w.strb.eq(s); yield axi.w.last.eq(i == len(beats) - 1)
            yield
            while not (yield axi.w.ready): yield
        yield axi.w.valid.eq(0)
        for _ in range(200):
            yield
            if (yield axi.b.valid): break
        yield axi.ar.valid.eq(1); yield axi.ar.addr.eq(0); yield axi.ar.burst.eq(1); yield axi.ar.len.eq(0); yield axi.ar.size.eq(1)
        yield
        while not (yield axi.ar.ready): yield
        yield axi.ar.valid.eq(0)
        for _ in range(200):
            yield
            if (yield axi.r.valid):
                res["read"] = (yield axi.r.data); break
    def memory():
        # faithful in-order memory: commands accepted every other cycle, data phases 3 cycles later, in order
        pend = []
        t = 0
        while t < 600:
            t += 1
            yield port.cmd.ready.eq(t % 2)
            yield port.wdata.ready.eq(0); yield port.rdata.valid.eq(0)
            if pend and pend[0][2] <= t:
                kind, a, _ = pend[0]
                if kind == "w":
                    yield port.wdata.ready.eq(1)
                else:
                    yield port.rdata.valid.eq(1); yield port.rdata.data.eq(mem.get(a, 0)); pend.pop(0)
            yield
            if (yield port.wdata.ready) and (yield port.wdata.valid):
                kind, a, _ = pend.pop(0)
                d, we = (yield port.wdata.data), (yield port.wdata.we)
                old = mem.get(a, 0)
                mem[a] = ((d if we & 1 else old) & 0xff) | ((d if we & 2 else old) & 0xff00)
            if (yield port.cmd.ready) and (yield port.cmd.valid):
                pend.append(("w" if (yield port.cmd.we) else "r", (yield port.cmd.addr), t + 3))
    run_simulation(h, [master(), memory()])
    return res.get("read"), mem[0], mem[1]



RMW_SCENARIOS = {   # name: (burst, size, start byte address, beats (data, strb), expected word 0, expected word 1); memory starts 0x68f7, 0x1234
    "FIXED_2_beats_second_without_strobes": (0, 1, 0, [(0x0100, 3), (0x0008, 0)], 0x0100, 0x1234),
    "WRAP_2_beats_second_without_strobes_other_word": (2, 1, 2, [(0x0020, 3), (0x8000, 0)], 0x68f7, 0x0020),
    "INCR_narrow_2_beats_inside_one_word": (1, 0, 0, [(0x00aa, 1), (0xbb00, 2)], 0xbbaa, 0x1234),
    "INCR_single_beat_partial_strobe": (1, 1, 0, [(0x00aa, 1)], 0x68aa, 0x1234),
    "INCR_2_beats_partial_strobes": (1, 1, 0, [(0x00aa, 1), (0xbb00, 2)], 0x68aa, 0xbb34),
}


def native_rmw_task(cfg, tier):
    import json, time
    from vc.runner import replay_path
    res = []
    for name, (burst, size, start, beats, e0, e1) in RMW_SCENARIOS.items():
        t0 = time.time()
        rd, m0, m1 = _native_rmw(burst, size, beats, start=start)
        ok = rd == e0 and m0 == e0 and m1 == e1
        oid = "C09/AXI2Native.native[rmw=True,%s]/bounded/read_after_write_response_sees_the_written_bytes" % name
        r = {"id": oid, "kind": "bounded", "status": "bounded-ok" if ok else "failed", "seconds": round(time.time() - t0, 2),
             "backend": "native-simulation(migen)"}
        if not ok:
            path = replay_path("C09", oid)
            json.dump({"property": "C09", "obligation": oid, "module": "contracts.c09", "kind": "pyargs", "args": {"scenario": name}},
                      open(path, "w"), indent=1)
            r.update(replay=path, reproduced=True, witness=dict(read_word0=rd, memory=[m0, m1], expected=[e0, e1]))
        res.append(r)
    return {"results": res}


def replay(rp):
    name = rp["args"]["scenario"]
    burst, size, start, beats, e0, e1 = RMW_SCENARIOS[name]
    rd, m0, m1 = _native_rmw(burst, size, beats, start=start)
    bad = rd != e0 or m0 != e0 or m1 != e1
    print("replay %s: %s (read %s, memory %s, expected %s)" % (rp["obligation"], "VIOLATED on current tree" if bad else "not violated on current tree",
                                                               rd, [m0, m1], [e0, e1]))
    return 1 if bad else 0


def tasks(tier):
    out = []
    q = tier == "quick"
    plan = [  # (config, scenario, depth quick, depth thorough, oneshot)
        (dict(), "single", 12, 16, True),
        (dict(rmw=True, base=0x10), "single", 12, 16, True),
        (dict(), None, 8, 10, False),
        (dict(), "b_stall", 8, 8, False),
        (dict(), "write_only", 9, 11, True),
        (dict(), "read_only", 9, 12, True),
    ]
    if not q:
        plan += [(dict(base=0x8, wdepth=4, rdepth=4), "single", 0, 16, True), (dict(rmw=True), None, 0, 9, False),
                 (dict(rmw=True, base=0x10, single_beat_bursts=True), "single", 0, 16, True)]
    for cfg in [dict(address_width=16), dict(address_width=32)][:1 if q else 2]:
        out.append(dict(fn="burst2beat_contract", cfg=cfg, modes=["inductive", "cover", "difftest"], weight=10, difftest_cycles=100))
    for cfg, sc, dq, dt, one in plan:
        d = dq if q else dt
        cfg = dict(cfg, depth=d, scenario=sc)
        modes = ["bounded", "difftest"] + (["cover"] if sc == "single" else [])
        out.append(dict(fn="axi_contract", cfg=cfg, modes=modes, depth=d, weight=30, timeout_ms=2400000,
                        difftest_cycles=40, oneshot=one, search_depth=d))
    for cfg in [dict(wdepth=2), dict(wdepth=3), dict(wdepth=4), dict(wdepth=7), dict(wdepth=16), dict(wdepth=4, base=32)]:
        out.append(dict(fn="w_reservation_contract", cfg=cfg, modes=["inductive", "response", "cover", "difftest"], weight=2, difftest_cycles=100))
    for cfg in [dict(rdepth=2), dict(rdepth=3), dict(rdepth=4), dict(rdepth=7), dict(rdepth=8), dict(rdepth=4, base=32)]:
        out.append(dict(fn="r_reservation_contract", cfg=cfg, modes=["inductive", "cover", "difftest"], weight=2, difftest_cycles=100))
    out.append(dict(kind="custom", fn="native_rmw_task", cfg={}, weight=5))
    return out
