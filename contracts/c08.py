"""C08 -- clock-domain-crossing ports preserve commands, data and order.

The crossing is three independent LiteX stream.AsyncFIFO (Migen AsyncFIFO: gray-coded pointers through two-flop
synchronisers) -- commands, write data, read data.  Two free-running clocks are modelled by one Boolean tick per domain and
step, constrained only by "at least one ticks": every frequency ratio, phase relation and drift is a tick sequence.
Proved by induction over ALL tick interleavings, all producer / consumer stall patterns, on the real elaborated FIFO:
  * gray pointers are the gray code of the binary pointers;
  * chain  consume_seen_by_writer <= (older sync stage) <= consume <= produce_seen_by_reader <= ... <= produce, all inside one
    window of `depth` (sum of the five non-negative gaps <= depth): the writer never overruns, the reader never underruns;
  * a freely chosen watched item stays in its slot until the reader's pointer reaches it and is then delivered unchanged,
    after exactly the items written before it (exactly once, in order).
LiteDRAMNativePortCDC: each channel's record fields are wired field-by-field through its own FIFO (commands and write data
user->core, read data core->user), channels independent.
Known finding: the read-data FIFO is written by the core, which ignores rdata.ready (crossbar contract): when read words
return faster than the user domain drains them and more than rdata_depth are in flight, words are dropped.  Shown natively
(two-clock simulation of the real module, memory side conforming to NativePortSpec)."""
import z3
from .common import *
from .common import _walk
from vc.engine import Contract
from vc.shims import capture_locals
from litex.soc.interconnect import stream
from migen.genlib import fifo as mfifo
from migen.genlib.cdc import MultiRegImpl, GrayCounter
from litedram.frontend.adapter import LiteDRAMNativePortCDC

PROPERTY = "C08"
LEVEL = "proof"
FUNCTIONS = ["litedram.frontend.adapter:LiteDRAMNativePortCDC.__init__", "litedram.core.crossbar:LiteDRAMCrossbar.get_port",
             "migen.genlib.fifo:AsyncFIFO.__init__", "migen.genlib.cdc:GrayCounter.__init__", "migen.genlib.cdc:MultiRegImpl.__init__",
             "litex.soc.interconnect.stream:_FIFOWrapper.__init__", "litex.soc.interconnect.stream:ClockDomainCrossing.__init__"]
ASSUMPTIONS = [
    "clocks: arbitrary interleaving of ideal edges (one tick Boolean per domain and step); metastability of the two-flop "
    "synchronisers is outside RTL semantics (gray coding makes a sampled pointer old-or-new, which the interleaving covers)",
    "resets: both domains start from reset together (with_common_rst=False in the adapter); reset during operation is not modelled",
    "per configuration (FIFO depths 2/4/8/16, payload widths); composition of the three channel lemmas into port-level memory "
    "semantics uses NativePortSpec of the core (C01) on paper",
    "read-data channel: the core does not honour rdata.ready; no-drop is NOT provable without a bound on reads in flight "
    "(known finding)",
]
EXPLANATION = "induction over all clock interleavings on the real AsyncFIFO (pointer chain + watched item); wiring lemma on the adapter"


def gray2bin(g):
    n = g.size()
    bits = [None] * n
    acc = z3.Extract(n - 1, n - 1, g)
    bits[n - 1] = acc
    for i in range(n - 2, -1, -1):
        acc = acc ^ z3.Extract(i, i, g)
        bits[i] = acc
    return z3.Concat(*[bits[i] for i in range(n - 1, -1, -1)])


def bin2gray(b):
    return b ^ z3.LShR(b, 1)


class FifoHarness(Module):
    def __init__(self, cfg):
        with capture_locals(mfifo.AsyncFIFO.__init__, MultiRegImpl.__init__) as cap:
            f = stream.AsyncFIFO([("data", cfg.get("width", 8))], cfg["depth"])
            self.submodules.fifo = ClockDomainsRenamer({"write": "wr", "read": "rd"})(f)
        self.cap = cap
        self.inner = f.fifo
        self.pick = Signal()
        self._s = Signal()
        self.comb += self._s.eq(self.pick)


def _async_parts(c, inner, cap, cap2):
    """pointers, synchroniser stages and storage of an elaborated migen AsyncFIFO (cap2: captured during lowering)"""
    loc = [l_ for l_ in cap.calls["AsyncFIFO.__init__"] if l_["self"] is inner][0]
    produce, consume = loc["produce"], loc["consume"]
    stages = {}
    for l_ in cap2.calls.get("MultiRegImpl.__init__", []):
        m = l_["self"]
        if m.i is produce.q:
            stages["p"] = m.regs
        if m.i is consume.q:
            stages["c"] = m.regs
    assert set(stages) == {"p", "c"}, "synchronisers of the FIFO pointers not found"
    storage = list(c.frag._mem_replacements[loc["storage"]])
    # Migen lowers the synchronous read port to "address register + array lookup": find that register
    from migen.fhdl.structure import _Assign
    rd_adr = None
    for cd, stmts in c.frag.sync.items():
        for st in _walk(stmts):
            if isinstance(st, _Assign) and st.r is loc["rdport"].adr and isinstance(st.l, Signal):
                rd_adr = st.l
    assert rd_adr is not None, "read-port address register not found"
    return dict(rd_adr=rd_adr, produce=produce, consume=consume, ps=stages["p"], cs=stages["c"], storage=storage, rdport=loc["rdport"],
                depth=inner.depth, fifo=inner)


def add_async_fifo_lemma(c, P, name, wr, rd, pick):
    """invariants + watched item of one AsyncFIFO; wr / rd: names of its write / read clock domains; pick(f): free Bool"""
    depth = P["depth"]
    pr, co = P["produce"], P["consume"]
    w = len(pr.q)
    Wd = w + 4
    Pb = lambda f: f(pr.q_binary)
    Cb = lambda f: f(co.q_binary)
    Ps1 = lambda f: gray2bin(f(P["ps"][0]))
    Ps2 = lambda f: gray2bin(f(P["ps"][1]))
    Cs1 = lambda f: gray2bin(f(P["cs"][0]))
    Cs2 = lambda f: gray2bin(f(P["cs"][1]))
    gap = lambda a, b: zext(a - b, Wd)                       # modulo 2^w difference, widened
    c.invariant(name + ".gray_pointers_encode_the_binary_pointers", lambda f: And(
        f(pr.q) == bin2gray(Pb(f)), f(co.q) == bin2gray(Cb(f))))
    total = lambda f: gap(Pb(f), Ps1(f)) + gap(Ps1(f), Ps2(f)) + gap(Ps2(f), Cb(f)) + gap(Cb(f), Cs1(f)) + gap(Cs1(f), Cs2(f))
    c.invariant(name + ".pointer_chain_inside_one_window_of_depth", lambda f: ULE(total(f), BV(depth, Wd)))
    fi = P["fifo"]
    wtick = lambda f: f.tick[wr]
    rtick = lambda f: f.tick[rd]
    push = lambda f: And(wtick(f), f.b(fi.we), f.b(fi.writable))
    pop = lambda f: And(rtick(f), f.b(fi.re), f.b(fi.readable))
    occ = lambda f: gap(Pb(f), Cb(f))
    c.ensures(name + ".never_written_when_full_never_read_when_empty", lambda f: And(
        Implies(f.b(fi.writable), ULT(occ(f), BV(depth, Wd))), Implies(f.b(fi.readable), occ(f) != 0)))
    g = lambda f, k: f.g[name + "." + k]
    picked = lambda f: And(g(f, "st") == 0, push(f), pick(f))
    out_now = lambda f: And(g(f, "st") == 1, pop(f), Cb(f) == g(f, "pos"))
    c.ghost(name + ".st", 2, 0, lambda f: If_(picked(f), BV(1, 2), If_(out_now(f), BV(2, 2), g(f, "st"))))
    c.ghost(name + ".pos", w, 0, lambda f: If_(picked(f), Pb(f), g(f, "pos")))
    c.ghost(name + ".val", fi.width, 0, lambda f: If_(picked(f), f(fi.din), g(f, "val")))

    def slot(f, idx):
        st = P["storage"]
        r = f(st[-1])
        for i in range(len(st) - 2, -1, -1):
            r = If_(idx == BV(i, idx.size()), f(st[i]), r)
        return r
    lowbits = lambda x: z3.Extract(w - 2, 0, x)
    c.invariant(name + ".watched_item_waits_in_its_slot_between_the_pointers", lambda f: Implies(g(f, "st") == 1, And(
        ULT(gap(g(f, "pos"), Cb(f)), occ(f)),                       # consume <= pos < produce
        slot(f, lowbits(g(f, "pos"))) == g(f, "val"))))
    c.invariant(name + ".watched_item_is_on_the_output_when_it_is_the_readable_head", lambda f: Implies(
        And(g(f, "st") == 1, Cb(f) == g(f, "pos"), f.b(fi.readable)), f(fi.dout) == g(f, "val")))
    c.invariant(name + ".read_port_addresses_the_consume_slot", lambda f: eqv(f(P["rd_adr"]), lowbits(Cb(f))))
    c.invariant(name + ".state_range", lambda f: ULE(g(f, "st"), BV(2, 2)))
    c.ensures(name + ".watched_item_delivered_unchanged_in_order", lambda f: Implies(out_now(f), f(fi.dout) == g(f, "val")))
    return dict(push=push, pop=pop, picked=picked, out_now=out_now, g=g, occ=occ)


def async_fifo_contract(cfg):
    h = FifoHarness(cfg)
    fifo = h.fifo
    free = [fifo.sink.valid, fifo.sink.data, fifo.sink.first, fifo.sink.last, fifo.source.ready, h.pick]
    with capture_locals(MultiRegImpl.__init__) as cap2:
        c = Contract("AsyncFIFO", h, free, cfg=cfg)
    P = _async_parts(c, h.inner, h.cap, cap2)
    W = add_async_fifo_lemma(c, P, "fifo", "wr", "rd", lambda f: f.b(h.pick))
    inner = h.inner
    c.ensures("stream_handshake_is_the_fifo_handshake", lambda f: And(
        f.b(fifo.sink.ready) == f.b(inner.writable), f.b(inner.we) == f.b(fifo.sink.valid),
        f.b(fifo.source.valid) == f.b(inner.readable), f.b(inner.re) == f.b(fifo.source.ready)))
    dw = len(fifo.sink.data)
    c.ensures("payload_layout_is_the_same_on_both_sides", lambda f: And(
        z3.Extract(dw - 1, 0, f(inner.din)) == f(fifo.sink.data), z3.Extract(dw - 1, 0, f(inner.dout)) == f(fifo.source.data),
        z3.Extract(dw, dw, f(inner.din)) == f(fifo.sink.first), z3.Extract(dw + 1, dw + 1, f(inner.din)) == f(fifo.sink.last),
        z3.Extract(dw, dw, f(inner.dout)) == f(fifo.source.first), z3.Extract(dw + 1, dw + 1, f(inner.dout)) == f(fifo.source.last)))
    c.cover("watched_item_crosses", lambda f: W["g"](f, "st") == 2, within=14)
    if cfg["depth"] <= 8:               # (deeper FIFOs: the same reachability guard would need a very long unrolling)
        c.cover("fifo_full", lambda f: Not(f.b(inner.writable)), within=3 * cfg["depth"] + 4)
    return c


class CDCHarness(Module):
    def __init__(self, cfg):
        aw, dw = cfg.get("address_width", 6), cfg.get("data_width", 16)
        mode = cfg.get("mode", "both")
        self.user = LiteDRAMNativePort(mode, aw, dw, clock_domain="user")
        self.core = LiteDRAMNativePort(mode, aw, dw, clock_domain="sys")
        with capture_locals(mfifo.AsyncFIFO.__init__, MultiRegImpl.__init__, LiteDRAMNativePortCDC.__init__,
                            stream.ClockDomainCrossing.__init__) as cap:
            self.submodules.cdc = LiteDRAMNativePortCDC(self.user, self.core, cmd_depth=cfg.get("cmd_depth", 4),
                                                        wdata_depth=cfg.get("wdata_depth", 4), rdata_depth=cfg.get("rdata_depth", 4))
        self.cap = cap
        self.L = cap.of(self.cdc)
        self.pick = Signal(3)
        self._s = Signal(3)
        self.comb += self._s.eq(self.pick)


def cdc_contract(cfg):
    h = CDCHarness(cfg)
    u, k, L = h.user, h.core, h.L
    mode = cfg.get("mode", "both")
    free = [u.cmd.valid, u.cmd.we, u.cmd.addr, u.cmd.first, u.cmd.last, k.cmd.ready, h.pick]
    if mode != "read":
        free += [u.wdata.valid, u.wdata.data, u.wdata.we, u.wdata.first, u.wdata.last, k.wdata.ready]
    if mode != "write":
        free += [k.rdata.valid, k.rdata.data, k.rdata.first, k.rdata.last, u.rdata.ready]
    with capture_locals(MultiRegImpl.__init__) as cap2:
        c = Contract("LiteDRAMNativePortCDC", h, free, cfg=cfg)
    chans = [("cmd", L["cmd_cdc"], "user", "sys", u.cmd, k.cmd, 0)]
    if mode != "read":
        chans.append(("wdata", L["wdata_cdc"], "user", "sys", u.wdata, k.wdata, 1))
    if mode != "write":
        chans.append(("rdata", L["rdata_cdc"], "sys", "user", k.rdata, u.rdata, 2))
    for name, cdcmod, wr, rd, src, dst, pi in chans:
        afifo = h.cap.of(cdcmod)["cdc"].fifo
        assert isinstance(afifo, mfifo.AsyncFIFO), "AsyncFIFO of channel %s not found" % name
        P = _async_parts(c, afifo, h.cap, cap2)
        add_async_fifo_lemma(c, P, name, wr, rd, lambda f, pi=pi: bit(f(h.pick), pi))
        # field-by-field wiring through the FIFO word (payload fields in layout order, then first, last)
        def wired(f, afifo=afifo, src=src, dst=dst):
            cl = [f.b(afifo.we) == f.b(src.valid), f.b(dst.valid) == f.b(afifo.readable), f.b(afifo.re) == f.b(dst.ready)]
            if src is not k.rdata:
                cl.append(f.b(src.ready) == f.b(afifo.writable))
            off = 0
            for fname, fw in src.description.payload_layout:
                cl.append(z3.Extract(off + fw - 1, off, f(afifo.din)) == f(getattr(src, fname)))
                cl.append(z3.Extract(off + fw - 1, off, f(afifo.dout)) == f(getattr(dst, fname)))
                off += fw
            return And(*cl)
        c.ensures(name + ".channel_wired_field_by_field_through_its_own_fifo", wired)
        want = cfg.get(name + "_depth", 4)
        c.ensures(name + ".fifo_has_the_configured_depth", lambda f, afifo=afifo, want=want: z3.BoolVal(afifo.depth == want))
    if mode != "write" and cfg.get("claim_no_drop"):
        rf = [x for x in chans if x[0] == "rdata"][0]
        c.ensures("rdata.word_returned_by_the_core_is_never_dropped", lambda f: Implies(f.b(k.rdata.valid), f.b(k.rdata.ready)))
    return c


# ---- native two-clock scenarios (bounded) -----------------------------------------------------------------------------------

def _native_scenario(user_period, sys_period, nreads, hold, rdata_depth, user_ready_gap=0):
    """real LiteDRAMNativePortCDC; core side = NativePortSpec-conforming stub that accepts read commands and returns the
    words in order, back-to-back, once `hold` commands are pending (a core stalled by a refresh and then streaming row hits);
    returns (words expected, words the user received)"""
    from migen.sim import run_simulation
    h = CDCHarness(dict(mode="read", rdata_depth=rdata_depth, cmd_depth=4, data_width=16, address_width=8))
    u, k = h.user, h.core
    got, sent = [], []

    def user_cmd():
        for i in range(nreads):
            yield u.cmd.valid.eq(1)
            yield u.cmd.we.eq(0)
            yield u.cmd.addr.eq(i)
            yield
            while not (yield u.cmd.ready):
                yield
        yield u.cmd.valid.eq(0)
        for _ in range(40 + nreads * 4):
            yield

    def user_rd():
        yield u.rdata.ready.eq(1)
        idle = 0
        t = 0
        while idle < 60 + nreads * 4:
            t += 1
            if user_ready_gap:
                yield u.rdata.ready.eq(1 if t % (user_ready_gap + 1) == 0 else 0)
            yield
            if (yield u.rdata.valid) and (yield u.rdata.ready):
                got.append((yield u.rdata.data))
                idle = 0
            else:
                idle += 1

    def core():
        pending = []
        released = False
        yield k.cmd.ready.eq(1)
        for _ in range((60 + nreads * 8) * max(1, user_period // sys_period)):
            yield
            yield k.rdata.valid.eq(0)
            if (yield k.cmd.valid) and (yield k.cmd.ready):
                pending.append((yield k.cmd.addr))
            if len(pending) + len(sent) >= min(hold, nreads):
                released = True
            if released and pending:
                a = pending.pop(0)
                yield k.rdata.valid.eq(1)
                yield k.rdata.data.eq(0x100 + a)
                sent.append(0x100 + a)
    run_simulation(h, {"user": [user_cmd(), user_rd()], "sys": [core()]}, clocks={"user": user_period, "sys": sys_period})
    return sent, got


def native_scenarios_task(cfg, tier):
    import json, time
    from vc.runner import replay_path
    res = []
    grid = [(10, 10, 8, 1, 16), (10, 10, 24, 12, 16), (40, 10, 12, 1, 16), (10, 40, 24, 12, 16), (13, 10, 20, 10, 16),
            (40, 10, 24, 24, 16), (40, 10, 8, 8, 4), (10, 10, 12, 12, 4, 3)]
    for sc in grid:
        t0 = time.time()
        up, sp, n, hold, rd = sc[:5]
        gap = sc[5] if len(sc) > 5 else 0
        oid = "C08/LiteDRAMNativePortCDC[user_period=%d,sys_period=%d,reads=%d,burst_after=%d,rdata_depth=%d,user_ready_gap=%d]/bounded/every_read_word_delivered_once_in_order" % (
            up, sp, n, hold, rd, gap)
        sent, got = _native_scenario(up, sp, n, hold, rd, gap)
        ok = got == sent and len(sent) == n
        r = {"id": oid, "kind": "bounded", "status": "bounded-ok" if ok else "failed", "seconds": round(time.time() - t0, 2),
             "backend": "native-simulation(migen, two clocks)"}
        if not ok:
            path = replay_path("C08", oid)
            args = dict(user_period=up, sys_period=sp, reads=n, burst_after=hold, rdata_depth=rd, user_ready_gap=gap)
            json.dump({"property": "C08", "obligation": oid, "module": "contracts.c08", "kind": "pyargs", "args": args},
                      open(path, "w"), indent=1)
            r.update(replay=path, reproduced=True, witness=dict(sent=len(sent), received=len(got),
                                                                first_missing=next((i for i, x in enumerate(sent) if i >= len(got) or got[i] != x), None)))
        res.append(r)
    return {"results": res}


def replay(rp):
    a = rp["args"]
    sent, got = _native_scenario(a["user_period"], a["sys_period"], a["reads"], a["burst_after"], a["rdata_depth"], a.get("user_ready_gap", 0))
    bad = got != sent or len(sent) != a["reads"]
    print("replay %s: %s" % (rp["obligation"], ("VIOLATED on current tree: core returned %d words, user received %d" % (len(sent), len(got)))
                             if bad else "not violated on current tree"))
    return 1 if bad else 0


# ---- clock-domain discipline of a crossbar port (structural frame condition) ---------------------------------------------

def _discipline_violations(frag, input_domain, sync_first_stage, storage_regs, outputs):
    """every register samples only registers / inputs of its own clock domain, except the first synchroniser stage (any
    source) and readers of an AsyncFIFO storage array; every listed output depends only on its own domain"""
    from migen.fhdl.tools import list_targets, list_inputs
    drv = {}
    for st in frag.comb:
        ins = list_inputs(st)
        for t in list_targets(st):
            drv.setdefault(t, set()).update(ins)
    dom, sup = {}, {}
    for cd, stmts in frag.sync.items():
        for st in stmts:
            ins = list_inputs(st)
            for t in list_targets(st):
                dom[t] = cd
                sup.setdefault(t, set()).update(ins)

    def leaves(sigs):
        seen, out, todo = set(), set(), list(sigs)
        while todo:
            x = todo.pop()
            if x in seen:
                continue
            seen.add(x)
            if x in dom or x not in drv:
                out.add(x)
            else:
                todo.extend(drv[x])
        return out
    bad = []

    def check(consumer, cd, leafset):
        for l in leafset:
            if l in storage_regs:
                continue
            ld = dom.get(l, input_domain.get(l))
            if ld is not None and ld != cd:
                bad.append((signame(consumer), cd, signame(l), ld))
    for r, cd in dom.items():
        if r in sync_first_stage:
            continue
        check(r, cd, leaves(sup[r]) - {r})
    for o, cd in outputs.items():
        check(o, cd, leaves([o]))
    return bad


def clock_discipline_task(cfg, tier):
    import time
    from vc.hwvc import elaborate, signame as _sn
    from litedram.common import LiteDRAMInterface
    from litedram.core.crossbar import LiteDRAMCrossbar
    globals()["signame"] = _sn
    res = []
    for mode in ("both", "read", "write"):
        for dwf in (1, 2, 0.5):
            t0 = time.time()
            s = mk_settings(bankbits=1, rowbits=11, colbits=10, nphases=2, dfi_databits=16, databits=8)
            itf = LiteDRAMInterface(2, s)

            class H(Module):
                pass
            h = H()
            with capture_locals(mfifo.AsyncFIFO.__init__, MultiRegImpl.__init__) as cap:
                h.submodules.xbar = xbar = LiteDRAMCrossbar(itf)
                dw = int(itf.data_width * dwf)
                port = xbar.get_port(mode=mode, clock_domain="user", data_width=dw)
                h.clock_domains.cd_user = ClockDomain("user")
                h.clock_domains.cd_sys = ClockDomain("sys")
                frag = elaborate(h)
            first = set()
            for l_ in cap.calls.get("MultiRegImpl.__init__", []):
                first.add(l_["self"].regs[0])
            storage = set()
            for l_ in cap.calls.get("AsyncFIFO.__init__", []):
                storage |= set(frag._mem_replacements[l_["storage"]])
            indom, outs = {}, {}
            for ep_name in ("cmd", "wdata", "rdata"):
                ep = getattr(port, ep_name, None)
                if ep is None:
                    continue
                for sig in ep.flatten():
                    indom[sig] = "user"
            for sig in (port.cmd.ready,):
                outs[sig] = "user"
            if mode != "read":
                outs[port.wdata.ready] = "user"
            if mode != "write":
                outs[port.rdata.valid] = "user"
                outs[port.rdata.data] = "user"
            for i in range(itf.nbanks):
                for sig in getattr(itf, "bank%d" % i).flatten():
                    indom[sig] = "sys"
            indom[itf.rdata] = "sys"
            bad = _discipline_violations(frag, indom, first, storage, outs)
            oid = "C08/Crossbar.get_port[mode=%s,clock_domain=user,data_width=%dx%s]/lemma/every_register_samples_its_own_clock_domain_only" % (
                mode, itf.data_width, dwf)
            r = {"id": oid, "kind": "lemma", "status": "failed" if bad else "proved", "seconds": round(time.time() - t0, 3),
                 "backend": "structural-cone-of-influence(python)", "reproduced": bool(bad)}
            if bad:
                r["detail"] = "; ".join("%s (%s) samples %s (%s)" % b for b in bad[:4])
            res.append(r)
    return {"results": res}


def tasks(tier):
    out = []
    depths = [4, 8] if tier == "quick" else [4, 8, 16, 32]
    for d in depths:
        out.append(dict(fn="async_fifo_contract", cfg=dict(depth=d, width=8 if d <= 8 else 4), modes=["inductive", "cover", "difftest"],
                        weight=d, difftest_cycles=60))
    for cfg in [dict(mode="both"), dict(mode="read", rdata_depth=8), dict(mode="write", wdata_depth=8)]:
        out.append(dict(fn="cdc_contract", cfg=cfg, modes=["inductive", "difftest"], weight=10, difftest_cycles=40))
    out.append(dict(kind="custom", fn="native_scenarios_task", cfg={}, weight=5))
    out.append(dict(kind="custom", fn="clock_discipline_task", cfg={}, weight=2))
    return out
