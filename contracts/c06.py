"""C06 -- port addresses map one-to-one onto DRAM locations.

The functions under contract return Migen expression trees; the trees produced by the *real* code for a concrete geometry
(LiteDRAMCrossbar.do_finalize -> m_ba / m_rca via LiteDRAMNativePort.get_bank_address / get_row_column_address, and
_AddressSlicer.row / .col) are wired to named signals and translated to functions of a symbolic port address.
Postconditions (all addresses, per geometry): decode equals the explicit layout column -> bank -> row (with the configured
bank alignment), which makes it a bijection onto (bank incl. rank, row, burst-aligned column); injectivity is also stated
directly on two symbolic addresses; A10 never carries a column bit; alignment bits are zero; consecutive addresses walk
columns, then banks, then rows.  The crossbar's routing (which bank machine sees which row/column address) and the bank
machine's use of that address on ACT / RD / WR are obligations on the real elaborated modules.
"""
import z3
from .common import *
from vc.engine import Contract
from vc.shims import capture_locals
from litedram.common import LiteDRAMInterface, burst_lengths
from litedram.core.crossbar import LiteDRAMCrossbar
from litedram.core.bankmachine import _AddressSlicer, BankMachine
from litedram.core.controller import LiteDRAMController
from . import c02

PROPERTY = "C06"
LEVEL = "proof"
FUNCTIONS = ["litedram.common:LiteDRAMNativePort.get_bank_address", "litedram.common:LiteDRAMNativePort.get_row_column_address",
             "litedram.core.bankmachine:_AddressSlicer.row", "litedram.core.bankmachine:_AddressSlicer.col",
             "litedram.core.crossbar:LiteDRAMCrossbar.do_finalize", "litedram.core.crossbar:LiteDRAMCrossbar.get_port",
             "litedram.core.controller:LiteDRAMController.__init__", "litedram.core.bankmachine:BankMachine.__init__"]
ASSUMPTIONS = [
    "per geometry (enumerated list; quick subset, thorough full grid); preconditions made explicit: bank alignment shift <= "
    "row+column address bits, and addressbits >= colbits+1 when colbits > 10 (otherwise the DRAM column would be truncated)",
    "rank is the upper part of the bank-machine index (crossbar bank number = rank*2^bankbits + bank)",
]
EXPLANATION = "combinational validity of the address-layout postconditions over all port addresses, per geometry"


class MapHarness(Module):
    """real crossbar (one port) on a real LiteDRAMInterface; decode outputs of the real functions wired to named signals"""

    def __init__(self, cfg):
        align = cfg["address_align"]
        s = mk_settings(bankbits=cfg["bankbits"], rowbits=cfg["rowbits"], colbits=cfg["colbits"], nranks=cfg["nranks"],
                        nphases=cfg.get("nphases", 4), dfi_databits=cfg.get("dfi_databits", 16),
                        bank_byte_alignment=cfg.get("bank_byte_alignment", 0))
        self.settings = s
        self.interface = itf = LiteDRAMInterface(align, s)
        self.submodules.xbar = xbar = LiteDRAMCrossbar(itf)
        self.port = port = xbar.get_port()
        with capture_locals(LiteDRAMCrossbar.do_finalize) as cap:
            xbar.finalize()
        L = cap.of(xbar)
        self.cba_shift = L["cba_shift"]
        self.bank_bits = xbar.bank_bits
        slicer = _AddressSlicer(s.geom.colbits, align)
        self.ba = Signal(max(xbar.bank_bits, 1))
        self.rca = Signal(itf.address_width)
        self.row = Signal(len(slicer.row(self.rca)))
        self.col = Signal(len(slicer.col(self.rca)))
        self.comb += [self.ba.eq(L["m_ba"][0]), self.rca.eq(L["m_rca"][0]),
                      self.row.eq(slicer.row(self.rca)), self.col.eq(slicer.col(self.rca))]


def layout_spec(addr, cfg, cba_shift):
    """the property's layout: column bits lowest, then (rank,bank), then row; with a bank alignment larger than a row of
    columns the low row bits sit below the bank field.  Returns (bankidx, row, colword) as z3 terms of `addr`."""
    align, colbits, rowbits = cfg["address_align"], cfg["colbits"], cfg["rowbits"]
    bank_bits = cfg["bankbits"] + (cfg["nranks"] - 1).bit_length()
    cw = colbits - align
    n = addr.size()
    lo = z3.Extract(cba_shift - 1, 0, addr) if cba_shift else None
    bank = z3.Extract(cba_shift + bank_bits - 1, cba_shift, addr)
    hi = z3.Extract(n - 1, cba_shift + bank_bits, addr) if n > cba_shift + bank_bits else None
    parts = [p for p in (hi, lo) if p is not None]
    rc = z3.Concat(*parts) if len(parts) > 1 else parts[0]          # row/column word, width cw+rowbits
    colword = z3.Extract(cw - 1, 0, rc)
    row = z3.Extract(cw + rowbits - 1, cw, rc)
    return bank, row, colword


def dram_col(colword, cfg):
    """DRAM column address (burst aligned, A10 skipped) of a controller column word"""
    align, colbits = cfg["address_align"], cfg["colbits"]
    cw = colbits - align
    parts = []
    if colbits > 10:
        parts = [z3.Extract(cw - 1, 10 - align, colword), BV(0, 1), z3.Extract(10 - align - 1, 0, colword)]
    else:
        parts = [colword]
    if align:
        parts.append(BV(0, align))
    return z3.Concat(*parts) if len(parts) > 1 else parts[0]


def map_contract(cfg):
    h = MapHarness(cfg)
    port = h.port
    c = Contract("AddressMap", h, [port.cmd.addr, port.cmd.valid, port.cmd.we], cfg=cfg)
    s = h.settings
    rowbits, colbits, align = cfg["rowbits"], cfg["colbits"], cfg["address_align"]
    cw = colbits - align
    n = len(port.cmd.addr)
    A = lambda f: f(port.cmd.addr)
    want_n = rowbits + colbits - align + h.bank_bits
    c.ensures("port_address_width_covers_exactly_the_device", lambda f: z3.BoolVal(n == want_n))
    c.ensures("bank_field_lies_inside_the_address", lambda f: z3.BoolVal(h.cba_shift + h.bank_bits <= n))
    if n != want_n or h.cba_shift + h.bank_bits > n:
        return c

    def decode(f):
        return f(h.ba), z3.Extract(rowbits - 1, 0, f(h.row)), f(h.col)

    def spec(f):
        b, r, cwd = layout_spec(A(f), cfg, h.cba_shift)
        return b, r, dram_col(cwd, cfg)

    c.ensures("decode_equals_column_bank_row_layout", lambda f: And(
        eqv(decode(f)[0], spec(f)[0]), eqv(decode(f)[1], spec(f)[1]), eqv(decode(f)[2], spec(f)[2])))
    c.ensures("row_has_no_stray_high_bits", lambda f: f(h.row) == zext(decode(f)[1], len(h.row)))
    if len(h.col) > 10:
        c.ensures("a10_is_never_a_column_bit", lambda f: Not(bit(f(h.col), 10)))
    if align:
        c.ensures("burst_alignment_bits_zero", lambda f: z3.Extract(align - 1, 0, f(h.col)) == 0)
    c.ensures("column_fits_the_address_bus", lambda f: z3.BoolVal(len(h.col) <= s.geom.addressbits))
    # onto: the explicit inverse of the layout reaches every (bank, row, column word)
    b_ = c.rigid("b", h.bank_bits)
    r_ = c.rigid("r", rowbits)
    w_ = c.rigid("w", cw)

    def inverse():
        rc = z3.Concat(r_, w_)
        parts = []
        if n > h.cba_shift + h.bank_bits:
            parts.append(z3.Extract(rc.size() - 1, h.cba_shift, rc))
        parts.append(b_)
        if h.cba_shift:
            parts.append(z3.Extract(h.cba_shift - 1, 0, rc))
        return z3.Concat(*parts) if len(parts) > 1 else parts[0]
    c.ensures("onto_every_location_has_a_preimage", lambda f: Implies(
        A(f) == inverse(), And(eqv(decode(f)[0], b_), eqv(decode(f)[1], r_), eqv(decode(f)[2], dram_col(w_, cfg)))))
    c.ensures("inverse_has_address_width", lambda f: z3.BoolVal(inverse().size() == n))
    # crossbar routing on the real elaborated crossbar: the bank machine that is offered the command is the decoded one
    itf = h.interface
    for nb in range(itf.nbanks):
        bank = getattr(itf, "bank%d" % nb)
        c.ensures("route.bank%d" % nb, lambda f, bank=bank, nb=nb: And(
            f.b(bank.valid) == And(f.b(port.cmd.valid), f(h.ba) == BV(nb, len(h.ba))),
            eqv(f(bank.addr), f(h.rca)), f(bank.we) == f(port.cmd.we)))
    return c


def inj_contract(cfg):
    """injectivity stated directly: two symbolic addresses through two copies of the real decode"""
    class Two(Module):
        def __init__(self):
            self.submodules.m1 = MapHarness(cfg)
            self.submodules.m2 = MapHarness(cfg)
    h = Two()
    m1, m2 = h.m1, h.m2
    c = Contract("AddressMapInjective", h, [m1.port.cmd.addr, m2.port.cmd.addr], cfg=cfg)
    rowbits = cfg["rowbits"]
    c.ensures("different_addresses_reach_different_bursts", lambda f: Implies(
        f(m1.port.cmd.addr) != f(m2.port.cmd.addr),
        Or(f(m1.ba) != f(m2.ba), f(m1.row) != f(m2.row), f(m1.col) != f(m2.col))))
    if cfg.get("bank_byte_alignment", 0) == 0:
        cw = cfg["colbits"] - cfg["address_align"]
        bb = m1.bank_bits
        a1, a2 = (lambda f: f(m1.port.cmd.addr)), (lambda f: f(m2.port.cmd.addr))
        colw = lambda f, a: z3.Extract(cw - 1, 0, a(f))
        succ = lambda f: a2(f) == a1(f) + 1
        c.ensures("next_address_walks_columns_first", lambda f: Implies(
            And(succ(f), colw(f, a1) != BV((1 << cw) - 1, cw)),
            And(f(m2.ba) == f(m1.ba), f(m2.row) == f(m1.row), f(m2.col) != f(m1.col))))
        if bb:
            c.ensures("then_banks", lambda f: Implies(
                And(succ(f), colw(f, a1) == BV((1 << cw) - 1, cw), f(m1.ba) != BV((1 << bb) - 1, bb)),
                And(f(m2.ba) == f(m1.ba) + 1, f(m2.row) == f(m1.row), f(m2.col) == 0)))
        c.ensures("then_rows", lambda f: Implies(
            And(succ(f), colw(f, a1) == BV((1 << cw) - 1, cw),
                f(m1.ba) == BV((1 << bb) - 1, len(m1.ba)) if bb else z3.BoolVal(True),
                a1(f) != BV((1 << len(m1.port.cmd.addr)) - 1, len(m1.port.cmd.addr))),
            And(f(m2.ba) == 0, z3.Extract(rowbits - 1, 0, f(m2.row)) == z3.Extract(rowbits - 1, 0, f(m1.row)) + 1,
                f(m2.col) == 0)))
    return c


def bm_addr_contract(cfg):
    """the bank machine puts the request's row on ACT and the request's column (A10 = auto-precharge flag only) on RD/WR"""
    h = c02.BMHarness(cfg)
    bm, L = h.bm, h.L
    free = [bm.req.valid, bm.req.we, bm.req.addr, bm.refresh_req, bm.cmd.ready, h.prea]
    c = Contract("BankMachineAddress", h, free, cfg=cfg)
    x = c02.bm_views(bm, L)
    cmd = bm.cmd
    colbits, align = h.settings.geom.colbits, cfg.get("address_align", 3)
    cwd = lambda f: z3.Extract(colbits - align - 1, 0, f(x.head.addr))
    geo = dict(colbits=colbits, address_align=align)
    abits = len(cmd.a)

    def col_on_bus(f):
        a = f(cmd.a)
        if abits > 10:
            a = a & BV(((1 << abits) - 1) ^ (1 << 10), abits)
        return a
    c.ensures("column_command_carries_request_column", lambda f: Implies(
        x.rw(f), col_on_bus(f) == zext(dram_col(cwd(f), geo), abits)))
    rowbits = x.rowbits
    c.ensures("activate_carries_request_row", lambda f: Implies(
        x.act(f), f(cmd.a) == zext(z3.Extract(colbits - align + rowbits - 1, colbits - align, f(x.head.addr)), abits)))
    return c


def align_task(cfg, tier):
    """address_align handed to bank machines / interface by the real LiteDRAMController = log2(burst length) (finite
    enumeration of memory types x phase counts: exhaustive)"""
    import time
    res = []
    cases = [("SDR", 1), ("SDR", 2), ("DDR", 2), ("LPDDR", 2), ("DDR2", 2), ("DDR3", 4), ("DDR3", 2), ("DDR4", 4),
             ("LPDDR4", 8), ("LPDDR5", 8)]
    for memtype, nph in cases:
        t0 = time.time()
        s = mk_settings(memtype=memtype, nphases=nph, bankbits=1, rowbits=12, colbits=10)
        with capture_locals(BankMachine.__init__, LiteDRAMController.__init__) as cap:
            ctrl = LiteDRAMController(s.phy, s.geom, s.timing, 100e6, ControllerSettings())
        expect = (nph if memtype == "SDR" else burst_lengths[memtype]).bit_length() - 1
        got = {c_["address_align"] for c_ in cap.calls["BankMachine.__init__"]} | {ctrl.interface.address_align}
        ok = got == {expect} and ctrl.interface.address_width == 12 + 10 - expect
        res.append({"id": "C06/Controller[memtype=%s,nphases=%d]/lemma/address_align_is_log2_burst_length" % (memtype, nph),
                    "kind": "lemma", "status": "proved" if ok else "failed", "seconds": round(time.time() - t0, 3),
                    "backend": "exhaustive-enumeration(cpython)", "reproduced": not ok,
                    "detail": "expected %d got %s" % (expect, sorted(got))})
    return {"results": res}


def geometries(tier):
    out = []
    if tier == "quick":
        rows = [13, 16]
        for bankbits in (1, 2, 3, 4):
            for colbits in (8, 10, 11, 12):
                for align in (0, 2, 3, 4):
                    for nranks in (1, 2):
                        rowbits = rows[(bankbits + colbits + align) % 2]
                        out.append(dict(bankbits=bankbits, rowbits=rowbits, colbits=colbits, address_align=align, nranks=nranks))
    else:
        for bankbits in (1, 2, 3, 4):
            for rowbits in (11, 13, 16):
                for colbits in (8, 9, 10, 11, 12):
                    if colbits > 10 and rowbits < colbits + 1:
                        continue
                    for align in (0, 1, 2, 3, 4):
                        for nranks in (1, 2):
                            out.append(dict(bankbits=bankbits, rowbits=rowbits, colbits=colbits, address_align=align, nranks=nranks))
    # bank_byte_alignment variants: data width 64 bits -> 8 bytes per word
    # (the large values put the bank field just below / at the top of the row-column address: cba_shift in
    # [rca_bits - bank_bits, rca_bits])
    for bba in (0x100, 0x1000, 0x10000, 0x100000, 0x200000, 0x400000, 0x800000):
        for colbits, align in ((10, 3), (11, 3), (9, 2)):
            out.append(dict(bankbits=3, rowbits=14, colbits=colbits, address_align=align, nranks=1, bank_byte_alignment=bba))
            out.append(dict(bankbits=2, rowbits=13, colbits=colbits, address_align=align, nranks=2, bank_byte_alignment=bba))
    return out


def tasks(tier):
    geos = geometries(tier)
    out = []
    nchunks = 16 if tier == "quick" else 32
    for i in range(nchunks):
        chunk = geos[i::nchunks]
        if chunk:
            out.append(dict(fn="map_contract", cfgs=chunk, modes=["inductive", "difftest"] if i == 0 else ["inductive"],
                            difftest_cycles=5, weight=len(chunk)))
            out.append(dict(fn="inj_contract", cfgs=chunk, modes=["inductive"], weight=len(chunk)))
    bmc = [dict(rowbits=13, colbits=10, address_align=3, cmd_buffer_depth=4),
           dict(rowbits=14, colbits=11, address_align=3, cmd_buffer_depth=4),
           dict(rowbits=16, colbits=12, address_align=4, cmd_buffer_depth=4, memtype="LPDDR4", nphases=8),
           dict(rowbits=13, colbits=12, address_align=2, cmd_buffer_depth=4, memtype="DDR2", nphases=2),
           dict(rowbits=12, colbits=9, address_align=0, cmd_buffer_depth=4, memtype="SDR", nphases=1),
           dict(rowbits=12, colbits=8, address_align=1, cmd_buffer_depth=4, memtype="SDR", nphases=2)]
    out.append(dict(fn="bm_addr_contract", cfgs=bmc, modes=["inductive"], weight=3))
    out.append(dict(kind="custom", fn="align_task", cfg={}))
    return out
