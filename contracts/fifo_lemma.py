"""Reusable contract pieces for the elaborated Migen/LiteX synchronous FIFO (migen.genlib.fifo.SyncFIFO as wrapped by
litex stream.SyncFIFO): range / pointer invariants and a *watched item* (chosen by a free `pick` input on any one push):
the item sits in the storage slot it was written to until exactly the pops of the items that were ahead of it have
happened, and is then delivered unchanged -- i.e. first-in first-out, nothing lost or duplicated.  All clauses are
discharged on the real elaborated FIFO (its Memory lowered to registers by Migen's own MemoryToArray)."""
import z3
from .common import *
from migen.genlib import fifo as mfifo


def fifo_parts(contract, sfifo, cap):
    """locate produce / consume / storage registers of a migen SyncFIFO instance (captured constructor locals)"""
    loc = [l_ for l_ in cap.calls["SyncFIFO.__init__"] if l_["self"] is sfifo][0]
    storage = contract.frag._mem_replacements[loc["storage"]]
    registered_out = loc["rdport"].dat_r in contract.tr.regs          # fwft=False: dout is valid the cycle after the pop
    return dict(produce=loc["produce"], consume=loc["consume"], storage=list(storage), level=sfifo.level,
                depth=sfifo.depth, width=sfifo.width, fifo=sfifo, do_read=loc["do_read"], registered_out=registered_out,
                dat_r=loc["rdport"].dat_r)


def inner_sync_fifo(litex_fifo):
    """the migen SyncFIFO inside a LiteX stream.SyncFIFO (buffered or not); returns (sync_fifo, buffered_wrapper or None)"""
    x = litex_fifo.fifo
    if hasattr(x, "fifo"):
        return x.fifo, x
    return x, None


def add_fifo_invariants(c, P, name):
    d = P["depth"]
    lw = len(P["level"])
    pw = max(len(P["produce"]), 1)

    def ptr_ok(f):
        lvl, pr, co = f(P["level"]), f(P["produce"]), f(P["consume"])
        W = max(lw, pw) + 2
        L, Pr, Co = zext(lvl, W), zext(pr, W), zext(co, W)
        return And(ULE(L, BV(d, W)), ULT(Pr, BV(d, W)), ULT(Co, BV(d, W)),
                   Or(Pr == Co + L, Pr + BV(d, W) == Co + L))
    c.invariant(name + ".pointers_and_level_consistent", ptr_ok)


def push_event(f, P):
    fi = P["fifo"]
    return And(f.b(fi.we), f.b(fi.writable), Not(f.b(fi.replace)))


def pop_event(f, P):
    return f.b(P["do_read"])


def add_watched_item(c, P, name, pick):
    """ghosts <name>.st (0 not picked / 1 inside / 2 delivered), .slot, .val, .ahead; pick(f): Bool (free choice)"""
    d = P["depth"]
    pw = max(len(P["produce"]), 1)
    aw = len(P["level"]) + 1
    g = lambda f, k: f.g[name + "." + k]
    picked_now = lambda f: And(g(f, "st") == 0, push_event(f, P), pick(f))
    delivered_now = lambda f: And(g(f, "st") == 1, pop_event(f, P), g(f, "ahead") == 0)
    c.ghost(name + ".st", 2, 0, lambda f: If_(picked_now(f), BV(1, 2), If_(delivered_now(f), BV(2, 2), g(f, "st"))))
    c.ghost(name + ".slot", pw, 0, lambda f: If_(picked_now(f), zext(f(P["produce"]), pw), g(f, "slot")))
    c.ghost(name + ".val", P["width"], 0, lambda f: If_(picked_now(f), f(P["fifo"].din), g(f, "val")))
    # number of items that must be popped before the watched one
    c.ghost(name + ".ahead", aw, 0, lambda f: If_(
        picked_now(f), zext(f(P["level"]), aw) - If_(pop_event(f, P), BV(1, aw), BV(0, aw)),
        If_(And(g(f, "st") == 1, pop_event(f, P), g(f, "ahead") != 0), g(f, "ahead") - 1, g(f, "ahead"))))

    def inside(f):
        W = aw + pw + 2
        co, sl, ah, lvl = zext(f(P["consume"]), W), zext(g(f, "slot"), W), zext(g(f, "ahead"), W), zext(f(P["level"]), W)
        return Implies(g(f, "st") == 1, And(
            ULT(ah, lvl), ULT(sl, BV(d, W)),
            Or(sl == co + ah, sl + BV(d, W) == co + ah),
            _storage_at(f, P, g(f, "slot")) == g(f, "val")))
    c.invariant(name + ".watched_item_stays_in_its_slot_behind_the_items_ahead", inside)
    c.invariant(name + ".state_range", lambda f: ULE(g(f, "st"), BV(2, 2)))
    if P["registered_out"]:
        c.ensures(name + ".watched_item_is_delivered_unchanged_in_fifo_order", lambda f: Implies(
            delivered_now(f), f.nx(P["dat_r"]) == g(f, "val")))
    else:
        c.ensures(name + ".watched_item_is_delivered_unchanged_in_fifo_order", lambda f: Implies(
            delivered_now(f), f(P["fifo"].dout) == g(f, "val")))
    c.ensures(name + ".pop_with_items_ahead_is_not_the_watched_item", lambda f: Implies(
        And(g(f, "st") == 1, pop_event(f, P), g(f, "ahead") != 0), Not(delivered_now(f))))
    return dict(picked_now=picked_now, delivered_now=delivered_now, g=g)


def _storage_at(f, P, idx):
    n = len(P["storage"])
    r = f(P["storage"][-1])
    for i in range(n - 2, -1, -1):
        r = If_(idx == BV(i, idx.size()), f(P["storage"][i]), r)
    return r
