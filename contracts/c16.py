"""C16 -- cycle counts derived from datasheets are never on the unsafe side.

PyVC (verification conditions from the AST of the real functions in litedram/modules.py) with symbolic clock frequency
(real > 0), symbolic datasheet numbers (ns real >= 0, ck >= 0), clock ratio d in {1,2,4,8}:
  margin, ns_to_cycles, ck_to_cycles, ck_ns_to_cycles (caller checked against the callees' contracts), and the
  TimingSettings(...) construction in SDRAMModule.__init__ with `get` replaced by its contract (returns the datasheet
  entry for (name, key)); SPD field helpers and txx_ns.
Plus, labelled bounded (exhaustive over a finite set, never counted as proved): the real classes of the whole library x
speedgrades x fine-refresh modes x rates x a frequency grid executed in CPython and compared with exact Fraction
arithmetic -- this bounds the floats-as-reals assumption and checks `get`/class tables/SPD images end to end.
"""
import json
import math
import os
import time
from fractions import Fraction
import z3
from vc import pyvc
from vc.pyvc import Interp, Rec, Summary, OutOfSubset
from vc.runner import replay_path
import litedram.modules as M

PROPERTY = "C16"
LEVEL = "proof"
FUNCTIONS = ["litedram.modules:SDRAMModule.ns_to_cycles", "litedram.modules:SDRAMModule.ck_to_cycles",
             "litedram.modules:SDRAMModule.ck_ns_to_cycles", "litedram.modules:SDRAMModule.margin",
             "litedram.modules:SDRAMModule.rate_frac", "litedram.modules:SDRAMModule.__init__",
             "litedram.modules:SDRAMModule.get", "litedram.modules:Timing.__add__",
             "litedram.modules:_read_field", "litedram.modules:_twos_complement", "litedram.modules:_word",
             "litedram.modules:_msn", "litedram.modules:_lsn", "litedram.modules:DDR3SPDData.txx_ns",
             "litedram.modules:DDR3SPDData.get_timings", "litedram.modules:DDR4SPDData.get_timings"]
ASSUMPTIONS = [
    "machine arithmetic treated as mathematical: Python float is a real number in the verification conditions; bounded by "
    "the run-time Fraction cross-run over the whole library (labelled bounded)",
    "rate_frac's string parsing ('1:4'.split(':')) is dropped by the extraction; its contract (num=1, denom=d) is checked "
    "natively for the four rate strings",
    "SDRAMModule.get's dynamic attribute lookup (getattr/hasattr with computed names) is outside the subset: `get` is "
    "replaced by its contract in the proof of __init__, and the contract is checked natively for every class x "
    "speedgrade x key of the library (finite set, exhaustive)",
    "reading of 'spans at least the datasheet clock count': n controller cycles contain >= c DRAM clocks (n*d >= c); the "
    "phase-offset reading is attached to the nanosecond clause only, as in the property statement",
]
EXPLANATION = "parametric proofs (all frequencies / ratios / datasheet numbers) + exhaustive library cross-run (bounded)"

REPLAY_EPS = Fraction(0)


def _res(oid, status, secs, backend, **kw):
    r = {"id": oid, "kind": "pyvc", "status": status, "seconds": round(secs, 3), "backend": backend}
    r.update(kw)
    return r


def module_rec(I, d=None, with_methods=True):
    """symbolic SDRAMModule: clk_freq real > 0, rate_frac = Frac(1, d)"""
    f = z3.Real("clk_freq")
    dd = z3.Int("d") if d is None else d
    pre = [f > 0]
    if d is None:
        pre.append(z3.Or(dd == 1, dd == 2, dd == 4, dd == 8))
    frac = Rec({"num": 1, "denom": dd}, "Frac", ("num", "denom"))
    import types
    methods = {n: v for n, v in vars(M.SDRAMModule).items() if isinstance(v, types.FunctionType)}
    props = {n: v for n, v in vars(M.SDRAMModule).items() if isinstance(v, property)}
    props["rate_frac"] = Summary(lambda I_, st, a, k: (frac, None))
    rec = Rec({"clk_freq": f, "@props": props, "@methods": methods}, "SDRAMModule")
    return rec, f, dd, pre


def T_of(f):
    return z3.RealVal(10 ** 9) / f


def run_fn(I, fn, args, kwargs, pre):
    st = pyvc.State({}, list(pre))
    return I.call_function(fn, args, kwargs, st)


def discharge(prefix, I, paths, ensures, pre, args_of_model=None, extra_obl=True):
    """one result per ensures clause (all paths) + one per kind of side obligation (asserts, raises, key errors)"""
    out = []
    for name, fn in ensures.items():
        t0 = time.time()
        status, model, backend = "proved", None, None
        for pc, ret, env in paths:
            try:
                goal = fn(ret, env)
            except OutOfSubset as e:
                status, backend = "unknown", "out-of-subset: %s" % e
                break
            s_, m_, _secs, backend = pyvc.prove(pc, goal)
            if s_ != "proved":
                status, model = s_, m_
                break
        r = _res("%s/pyvc/%s" % (prefix, name), status, time.time() - t0, backend or "z3")
        if status == "failed" and model is not None and args_of_model is not None:
            r["model_args"] = args_of_model(model)
        out.append(r)
    if extra_obl:
        groups = {}
        for kind, pc, goal, where in I.obligations:
            groups.setdefault(kind, []).append((pc, goal, where))
        for kind, lst in groups.items():
            t0 = time.time()
            status, where_f, backend = "proved", None, "z3"
            for pc, goal, where in lst:
                s_, m_, _secs, backend = pyvc.prove(pc, goal)
                if s_ != "proved":
                    status, where_f = s_, where
                    break
            r = _res("%s/pyvc/no_%s" % (prefix, kind), status, time.time() - t0, backend, count=len(lst))
            if where_f:
                r["where"] = where_f
            out.append(r)
    return out


def frac_of_model(m, t):
    v = m.eval(t, model_completion=True)
    if z3.is_int_value(v):
        return Fraction(v.as_long())
    if z3.is_rational_value(v):
        return Fraction(v.numerator_as_long(), v.denominator_as_long())
    if z3.is_algebraic_value(v):
        a = v.approx(20)
        return Fraction(a.numerator_as_long(), a.denominator_as_long())
    return None


# ---------------------------------------------------------------------------------------------------------------------
# conversions
# ---------------------------------------------------------------------------------------------------------------------

def conversions_task(cfg, tier):
    res = []
    # --- margin
    I = Interp()
    rec, f, d, pre = module_rec(I)
    T = T_of(f)
    paths = run_fn(I, M.SDRAMModule.margin, [rec], {}, pre)
    res += discharge("C16/SDRAMModule.margin[]", I, paths,
                     {"margin_is_period_times_one_minus_inverse_ratio":
                      lambda ret, env: ret == T * (1 - 1 / z3.ToReal(d))}, pre)
    # --- ns_to_cycles
    for mg in (True, False):
        I = Interp()
        rec, f, d, pre = module_rec(I)
        T = T_of(f)
        t = z3.Real("t")
        pre2 = pre + [t >= 0]
        paths = run_fn(I, M.SDRAMModule.ns_to_cycles, [rec, t], {"margin": mg}, pre2)
        mgn = T * (1 - 1 / z3.ToReal(d)) if mg else z3.RealVal(0)

        def amod(m, f=f, d=d, t=t, mg=mg):
            return {"clk_freq": str(frac_of_model(m, f)), "d": str(frac_of_model(m, d)), "t": str(frac_of_model(m, t)),
                    "margin": mg, "fn": "ns_to_cycles"}
        res += discharge("C16/SDRAMModule.ns_to_cycles[margin=%s]" % mg, I, paths, {
            "covers_the_nanoseconds_on_worst_phases": lambda ret, env, T=T, mgn=mgn, t=t: z3.ToReal(ret) * T - mgn >= t,
            "is_the_smallest_such_count": lambda ret, env, T=T, mgn=mgn, t=t: (z3.ToReal(ret) - 1) * T - mgn < t,
            "result_is_an_integer_count": lambda ret, env: z3.BoolVal(ret.sort().kind() == z3.Z3_INT_SORT),
        }, pre2, amod)
    # --- ck_to_cycles
    I = Interp()
    rec, f, d, pre = module_rec(I)
    c = z3.Real("c")
    pre2 = pre + [c >= 0]
    paths = run_fn(I, M.SDRAMModule.ck_to_cycles, [rec, c], {}, pre2)

    def amod(m, f=f, d=d, c=c):
        return {"clk_freq": str(frac_of_model(m, f)), "d": str(frac_of_model(m, d)), "c": str(frac_of_model(m, c)),
                "fn": "ck_to_cycles"}
    res += discharge("C16/SDRAMModule.ck_to_cycles[]", I, paths, {
        "spans_the_clock_count": lambda ret, env, d=d, c=c: z3.ToReal(ret * d) >= c,
        "is_the_smallest_such_count": lambda ret, env, d=d, c=c: z3.ToReal((ret - 1) * d) < c,
    }, pre2, amod)
    # --- ck_ns_to_cycles, against the callees' contracts (not their bodies)
    for mg in (True, False):
        I = Interp()
        rec, f, d, pre = module_rec(I)
        T = T_of(f)
        ck, ns = z3.Real("ck"), z3.Real("ns")
        pre2 = pre + [ck >= 0, ns >= 0]
        mgn = (lambda use: T * (1 - 1 / z3.ToReal(d)) if use else z3.RealVal(0))

        def ns_summary(I_, st, a, k, T=T, mgn=mgn):
            n = z3.Int("n_ns_%d" % len(I_.obligations))
            use = k.get("margin", a[2] if len(a) > 2 else True)
            t_ = pyvc.to_real(a[1])
            return n, z3.And(z3.ToReal(n) * T - mgn(use) >= t_, (z3.ToReal(n) - 1) * T - mgn(use) < t_)

        def ck_summary(I_, st, a, k, d=d):
            n = z3.Int("n_ck_%d" % len(I_.obligations))
            c_ = pyvc.to_real(a[1])
            return n, z3.And(z3.ToReal(n * d) >= c_, z3.ToReal((n - 1) * d) < c_)
        rec.f["@methods"] = dict(rec.f["@methods"], ns_to_cycles=Summary(ns_summary), ck_to_cycles=Summary(ck_summary))
        timing = Rec({"ck": ck, "ns": ns}, "Timing", ("ck", "ns"))
        kwargs = {} if mg else {"margin": False}
        paths = run_fn(I, M.SDRAMModule.ck_ns_to_cycles, [rec, timing], kwargs, pre2)
        res += discharge("C16/SDRAMModule.ck_ns_to_cycles[margin=%s]" % mg, I, paths, {
            "covers_nanoseconds_and_clock_count": lambda ret, env, T=T, mgn=mgn, mg=mg, ns=ns, ck=ck, d=d: z3.And(
                z3.ToReal(ret) * T - mgn(mg) >= ns, z3.ToReal(ret * d) >= ck),
            "is_the_smallest_such_count": lambda ret, env, T=T, mgn=mgn, mg=mg, ns=ns, ck=ck, d=d: z3.Or(
                (z3.ToReal(ret) - 1) * T - mgn(mg) < ns, z3.ToReal((ret - 1) * d) < ck),
        }, pre2)
    # --- rate_frac: contract checked natively (string parsing dropped by the extraction)
    t0 = time.time()
    ok = True
    for rate, dd in (("1:1", 1), ("1:2", 2), ("1:4", 4), ("1:8", 8)):
        class _X(M.SDRAMModule):
            pass
        x = object.__new__(_X)
        x.rate = rate
        fr = x.rate_frac
        ok = ok and (fr.num, fr.denom) == (1, dd)
    res.append(_res("C16/SDRAMModule.rate_frac[]/pyvc/contract_num_1_denom_d_checked_natively", "proved" if ok else "failed",
                    time.time() - t0, "exhaustive-enumeration(cpython)"))
    return {"results": res, "coverage_extra": {"pyvc_dropped": sorted(I.dropped)}}


# ---------------------------------------------------------------------------------------------------------------------
# SDRAMModule.__init__ : every field of TimingSettings
# ---------------------------------------------------------------------------------------------------------------------

MIN_FIELDS = {"tRP": ["tRP"], "tRCD": ["tRCD"], "tWR": ["tWR"], "tRFC": ["tRFC"], "tWTR": ["tWTR"], "tFAW": ["tFAW"],
              "tCCD": ["tCCD"], "tRRD": ["tRRD"], "tRAS": ["tRAS"], "tZQCS": ["tZQCS"], "tRC": ["tRP", "tRAS"]}
OPTIONAL = ["tFAW", "tCCD", "tRRD", "tRAS", "tZQCS"]


def init_task(cfg, tier):
    res = []
    cases = [("DDR3", None, frozenset()), ("DDR3", None, frozenset(OPTIONAL)), ("DDR4", "2x", frozenset()),
             ("DDR4", None, frozenset(["tZQCS"])), ("SDR", None, frozenset(["tFAW", "tRRD", "tRAS", "tZQCS"]))]
    for memtype, frm, absent in cases:
        I = Interp(classes={"GeomSettings": lambda a, k: Rec(dict(k), "GeomSettings"),
                            "TimingSettings": lambda a, k: Rec(dict(k), "TimingSettings")})
        rec, f, d, pre = module_rec(I)
        T = T_of(f)
        margin = T * (1 - 1 / z3.ToReal(d))
        sym = {}
        pre2 = list(pre)

        def get_summary(I_, st, a, k, sym=sym, pre2=pre2, absent=absent):
            name = a[1]
            key = a[2] if len(a) > 2 else k.get("key")
            if name in absent:
                return None, None
            kk = (name, key)
            if kk not in sym:
                ck = z3.Real("ck_%s_%s" % kk)
                ns = z3.Real("ns_%s_%s" % kk)
                sym[kk] = (ck, ns)
            ck, ns = sym[kk]
            tm = Rec({"ck": ck, "ns": ns, "@methods": {"__add__": M.Timing.__add__}}, "Timing", ("ck", "ns"))
            return tm, z3.And(ck >= 0, ns >= 0)
        I.classes["Timing"] = lambda a, k: Rec({"ck": a[0], "ns": a[1], "@methods": {"__add__": M.Timing.__add__}},
                                               "Timing", ("ck", "ns"))

        def cnc_summary(I_, st, a, k, T=T, margin=margin, d=d):
            """ck_ns_to_cycles by its contract"""
            n = z3.Int("n_%d" % len(I_.obligations))
            tm = a[1]
            use = k.get("margin", True)
            mg = margin if use else z3.RealVal(0)
            ns_, ck_ = pyvc.to_real(tm.f["ns"]), pyvc.to_real(tm.f["ck"])
            I_.oblige("callee_pre", st, z3.And(ns_ >= 0, ck_ >= 0), "ck_ns_to_cycles requires a non-negative timing")
            return n, z3.And(z3.ToReal(n) * T - mg >= ns_, z3.ToReal(n * d) >= ck_,
                             z3.Or((z3.ToReal(n) - 1) * T - mg < ns_, z3.ToReal((n - 1) * d) < ck_))
        rec.f["@methods"] = dict(rec.f["@methods"], get=Summary(get_summary), ck_ns_to_cycles=Summary(cnc_summary))
        rec.f.update({"memtype": memtype, "nbanks": 8, "nrows": 8192, "ncols": 1024})
        cfgname = "memtype=%s,fine_refresh_mode=%s,absent=%s" % (memtype, frm, "+".join(sorted(absent)) or "none")
        try:
            paths = run_fn(I, M.SDRAMModule.__init__, [rec, f, "1:4"], {"fine_refresh_mode": frm}, pre2)
        except OutOfSubset as e:
            res.append(_res("C16/SDRAMModule.__init__[%s]/pyvc/in_subset" % cfgname, "unknown", 0, "out-of-subset: %s" % e))
            continue
        eff_frm = frm if frm is not None else ("1x" if memtype == "DDR4" else None)
        ens = {}
        for field, srcs in MIN_FIELDS.items():
            def e(ret, env, field=field, srcs=srcs):
                ts = env["self"].f["timing_settings"].f
                v = ts[field]
                if any(s_ in absent for s_ in srcs):
                    return z3.BoolVal(v is None)
                if v is None:
                    return z3.BoolVal(False)
                key = eff_frm if field == "tRFC" else None
                ns_tot = sum(sym[(s_, key if s_ == "tRFC" else None)][1] for s_ in srcs)
                ck_tot = sum(sym[(s_, key if s_ == "tRFC" else None)][0] for s_ in srcs)
                return z3.And(z3.ToReal(v) * T - margin >= ns_tot, z3.ToReal(v * d) >= ck_tot)
            ens["%s_covers_datasheet_on_worst_phases" % field] = e

        def e_refi(ret, env):
            ts = env["self"].f["timing_settings"].f
            v = ts["tREFI"]
            kk = ("tREFI", eff_frm)
            if kk not in sym:
                return z3.BoolVal(False)        # tREFI was not taken from the selected fine-refresh entry
            return z3.ToReal(v) * T <= sym[kk][1]
        ens["tREFI_not_longer_than_datasheet_interval"] = e_refi
        ens["fine_refresh_mode_recorded"] = lambda ret, env: z3.BoolVal(
            env["self"].f["timing_settings"].f.get("fine_refresh_mode") == eff_frm)

        def amod(m, f=f, d=d, sym=sym):
            return {"fn": "__init__", "clk_freq": str(frac_of_model(m, f)), "d": str(frac_of_model(m, d)),
                    "timings": {"%s/%s" % k_: [str(frac_of_model(m, v_[0])), str(frac_of_model(m, v_[1]))]
                                for k_, v_ in sym.items()}}
        res += discharge("C16/SDRAMModule.__init__[%s]" % cfgname, I, paths, ens, pre2, amod)
    return {"results": res}


# ---------------------------------------------------------------------------------------------------------------------
# SPD helpers
# ---------------------------------------------------------------------------------------------------------------------

def spd_task(cfg, tier):
    res = []
    # bit-field helpers: full input domain enumerated on the real functions (finite domain => complete)
    t0 = time.time()
    bad = None
    n = 0
    for nbits, shift in [(3, 4), (3, 3), (3, 0), (4, 4), (4, 0), (2, 6), (2, 4), (2, 2), (2, 0), (8, 0), (1, 7)]:
        for byte in range(0, 1 << 12):
            n += 1
            if M._read_field(byte, nbits, shift) != (byte >> shift) % (1 << nbits) and bad is None:
                bad = ("_read_field", byte, nbits, shift)
    for byte in range(256):
        n += 2
        if (M._msn(byte), M._lsn(byte)) != (byte // 16, byte % 16) and bad is None:
            bad = ("_msn/_lsn", byte)
        for lsb in range(256):
            n += 1
            if M._word(byte, lsb) != byte * 256 + lsb and bad is None:
                bad = ("_word", byte, lsb)
    for nbits in (4, 8, 12):
        for v in range(1 << nbits):
            n += 1
            if M._twos_complement(v, nbits) != (v - (1 << nbits) if v >= (1 << (nbits - 1)) else v) and bad is None:
                bad = ("_twos_complement", v, nbits)
    r = _res("C16/spd_bitfield_helpers[]/pyvc/read_field_nibbles_word_twos_complement_full_domain@%d" % n,
             "proved" if bad is None else "failed", time.time() - t0, "exhaustive-enumeration(cpython), full input domain")
    if bad:
        r["where"], r["reproduced"] = str(bad), True
    res.append(r)
    I = Interp()
    v = z3.Int("value")
    paths = run_fn(I, M._twos_complement, [v, 8], {}, [v >= 0, v < 256])
    res += discharge("C16/_twos_complement[nbits=8]", I, paths, {
        "is_the_signed_value": lambda ret, env: ret == z3.If(v >= 128, v - 256, v)}, [v >= 0, v < 256], extra_obl=False)
    # txx_ns = mtb*MTB + sext8(ftb)*FTB
    I = Interp(functions={"_twos_complement": M._twos_complement})
    mtbv, ftbv = z3.Int("mtb"), z3.Int("ftb")
    MTB, FTB = z3.Real("MTB"), z3.Real("FTB")
    spd = Rec({"medium_timebase_ns": MTB, "fine_timebase_ns": FTB}, "SPD")
    pw = [mtbv >= 0, mtbv < 65536, ftbv >= 0, ftbv < 256, MTB > 0, FTB > 0]
    paths = run_fn(I, M.DDR3SPDData.txx_ns, [spd, mtbv], {"ftb": ftbv}, pw)
    res += discharge("C16/DDR3SPDData.txx_ns[]", I, paths, {
        "medium_plus_signed_fine_timebase": lambda ret, env: ret == z3.ToReal(mtbv) * MTB + z3.ToReal(
            z3.If(ftbv >= 128, ftbv - 256, ftbv)) * FTB}, pw, extra_obl=False)
    return {"results": res}


# ---------------------------------------------------------------------------------------------------------------------
# bounded: the real library executed, exact Fraction oracle
# ---------------------------------------------------------------------------------------------------------------------

_SNAP = {}


def _snapshot_tables():
    """deep copies of every module class's datasheet tables taken BEFORE any module object is built in this process: the
    oracle must not follow a constructor that writes into the shared class tables"""
    import copy
    if _SNAP:
        return
    for cls in all_module_classes():
        _SNAP[cls] = (copy.deepcopy(getattr(cls, "technology_timings", None)), copy.deepcopy(getattr(cls, "speedgrade_timings", None)))


def _entry(cls_or_obj, name, speedgrade, key):
    """independent lookup of the datasheet entry (ck, ns) of a module class"""
    tt = getattr(cls_or_obj, "technology_timings", None)
    st = getattr(cls_or_obj, "speedgrade_timings", None)
    k_ = cls_or_obj if isinstance(cls_or_obj, type) else type(cls_or_obj)
    if k_ in _SNAP:
        tt, st = _SNAP[k_]
    val = None
    if name in M._speedgrade_timings:
        if st is not None:
            val = getattr(st["default" if speedgrade is None else speedgrade], name)
        else:
            val = getattr(cls_or_obj, name + ("_" + speedgrade if speedgrade is not None else ""), None)
    else:
        val = getattr(tt, name) if tt is not None else getattr(cls_or_obj, name, None)
    if val is None:
        return None
    if key is not None and isinstance(val, dict):
        val = val[key]
    elif isinstance(val, dict):
        raise KeyError("dict-valued timing %s needs a key" % name)
    if isinstance(val, tuple):
        ck, ns = val
    else:
        ck, ns = 0, val
    return Fraction(ck or 0), Fraction(ns or 0)


def all_module_classes():
    out = []
    for name in dir(M):
        o = getattr(M, name)
        if isinstance(o, type) and issubclass(o, M.SDRAMModule) and hasattr(o, "nbanks") and hasattr(o, "memtype"):
            out.append(o)
    return sorted(out, key=lambda c: c.__name__)


def check_instance(mod, cls, speedgrade, frm, clk, rate):
    """returns list of violated clauses for one instantiated module, using exact arithmetic"""
    bad = []
    d = int(rate.split(":")[1])
    T = Fraction(10 ** 9) / Fraction(clk)
    margin = T * (1 - Fraction(1, d))
    ts = mod.timing_settings
    eff = frm if frm is not None else ("1x" if cls.memtype == "DDR4" else None)
    for field, srcs in MIN_FIELDS.items():
        ents = []
        for s_ in srcs:
            e = _entry(mod, s_, speedgrade, eff if s_ == "tRFC" else None)
            ents.append(e)
        v = getattr(ts, field)
        if any(e is None for e in ents):
            if v is not None and field != "tRC":
                bad.append((field, "present although datasheet entry missing"))
            continue
        if v is None:
            bad.append((field, "missing"))
            continue
        ck = sum(e[0] for e in ents)
        ns = sum(e[1] for e in ents)
        if v * T - margin < ns:
            bad.append((field, "ns: %d cycles * %s - margin < %s" % (v, float(T), float(ns))))
        if v * d < ck:
            bad.append((field, "ck: %d cycles * %d < %s" % (v, d, float(ck))))
    e = _entry(mod, "tREFI", speedgrade, eff)
    if ts.tREFI * T > e[1]:
        bad.append(("tREFI", "%d cycles = %s ns > %s ns" % (ts.tREFI, float(ts.tREFI * T), float(e[1]))))
    return bad


def library_task(cfg, tier):
    _snapshot_tables()
    return _library_task(cfg, tier)


def _library_task(cfg, tier):
    t0 = time.time()
    classes = all_module_classes()
    part, nparts = cfg["part"], cfg["nparts"]
    classes = classes[part::nparts]
    nfreq = 12 if tier == "quick" else 120
    freqs = sorted(set([50e6, 100e6, 125e6, 133.333e6, 150e6, 200e6, 83.3333333e6] +
                       [40e6 + i * (360e6 / nfreq) + (i % 7) * 1234.5 for i in range(nfreq)]))
    n, nbad, samples, first = 0, 0, [], {}
    for cls in classes:
        sgs = [None]
        st = getattr(cls, "speedgrade_timings", None)
        if st is not None:
            sgs += [k for k in st if k != "default"]
        frms = [None, "1x", "2x", "4x"] if cls.memtype == "DDR4" else [None]
        for sg in sgs:
            for frm in frms:
                for rate in ("1:1", "1:2", "1:4"):
                    for clk in freqs:
                        try:
                            mod = cls(clk, rate, speedgrade=sg, fine_refresh_mode=frm)
                        except Exception as e:  # noqa
                            key = ("construct", cls.__name__, type(e).__name__)
                            first.setdefault(key, "%s(%s,%s,sg=%s,frm=%s): %s" % (cls.__name__, clk, rate, sg, frm, e))
                            continue
                        n += 1
                        bad = check_instance(mod, cls, sg, frm, clk, rate)
                        if bad:
                            nbad += 1
                            for field, why in bad:
                                first.setdefault((field,), {"cls": cls.__name__, "clk": clk, "rate": rate, "speedgrade": sg,
                                                            "fine_refresh_mode": frm, "why": why})
                        elif len(samples) < 2:
                            samples.append("%s(%g,%s,%s,%s): tRP=%d tRFC=%d tREFI=%d" % (
                                cls.__name__, clk, rate, sg, frm, mod.timing_settings.tRP, mod.timing_settings.tRFC,
                                mod.timing_settings.tREFI))
    res = []
    fields = sorted({k[0] for k in first if len(k) == 1})
    oid = "C16/Library[part=%d/%d]/bounded/all_modules_speedgrades_rates_frequency_grid@%d" % (part, nparts, n)
    if not fields:
        res.append({"id": oid, "kind": "bounded", "status": "bounded-ok", "seconds": round(time.time() - t0, 2),
                    "backend": "cpython+fractions", "depth": n, "instances": n, "samples": samples})
    else:
        for fld in fields:
            w = first[(fld,)]
            rp = {"property": "C16", "obligation": oid + "/" + fld, "module": "contracts.c16", "kind": "pyargs",
                  "args": w, "fn": "library_instance", "reproduced": True,
                  "solver": {"name": "cpython+fractions", "status": "counterexample by enumeration"}}
            path = replay_path("C16", oid + "/" + fld)
            json.dump(rp, open(path, "w"), indent=1)
            res.append({"id": oid + "/" + fld, "kind": "bounded", "status": "failed", "seconds": round(time.time() - t0, 2),
                        "backend": "cpython+fractions", "replay": path, "reproduced": True, "witness": w})
    errs = ["module cannot be constructed: %s" % v for k, v in first.items() if k[0] == "construct"]
    return {"results": res, "errors": errs[:5], "coverage_extra": {"library_instances_checked": n}}


def spd_images_task(cfg, tier):
    """modules built from the SPD images in the test data satisfy the same clauses against the SPD contents (bounded)"""
    t0 = time.time()
    import glob
    files = sorted(glob.glob("/repo/test/spd_data/*.csv")) + sorted(glob.glob("/repo/test/spd_data/*"))
    files = sorted(set(files))
    from litedram.modules import parse_spd_hexdump
    n, first = 0, {}
    for fn in files:
        try:
            import csv
            data = [0] * 512
            with open(fn) as fh:
                for row in csv.DictReader(fh):
                    address = row["Byte Number"]
                    if len(address.split("-")) == 1:
                        data[int(address)] = int(row["Byte Value"], 16)
        except Exception:  # noqa
            continue
        if not data or data[2] not in (0x0b, 0x0c):
            continue
        for clk in (100e6, 125e6, 150e6, 200e6, 83.33e6):
            for frm in ([None] if data[2] == 0x0b else [None, "2x", "4x"]):
                try:
                    mod = M.SDRAMModule.from_spd_data(data, clk, fine_refresh_mode=frm)
                except Exception as e:  # noqa
                    first.setdefault(("construct", os.path.basename(fn)), str(e))
                    continue
                n += 1
                bad = check_instance(mod, type(mod), mod.speedgrade, frm, clk, mod.rate)
                for field, why in bad:
                    first.setdefault((field,), {"spd": os.path.basename(fn), "clk": clk, "fine_refresh_mode": frm, "why": why})
    fields = sorted({k[0] for k in first if len(k) == 1})
    oid = "C16/SPD[]/bounded/modules_from_test_spd_images@%d" % n
    if n == 0:
        return {"results": [], "errors": ["no SPD image could be parsed"]}
    if not fields:
        return {"results": [{"id": oid, "kind": "bounded", "status": "bounded-ok", "seconds": round(time.time() - t0, 2),
                             "backend": "cpython+fractions", "depth": n}]}
    res = []
    for fld in fields:
        w = first[(fld,)]
        path = replay_path("C16", oid + "/" + fld)
        json.dump({"property": "C16", "obligation": oid + "/" + fld, "module": "contracts.c16", "kind": "pyargs", "args": w,
                   "fn": "spd_instance", "reproduced": True}, open(path, "w"), indent=1)
        res.append({"id": oid + "/" + fld, "kind": "bounded", "status": "failed", "seconds": round(time.time() - t0, 2),
                    "backend": "cpython+fractions", "replay": path, "reproduced": True, "witness": w})
    return {"results": res}


def get_contract_task(cfg, tier):
    """`get` returns the class's datasheet entry for (name, speedgrade, key): every class x speedgrade x key (exhaustive)"""
    t0 = time.time()
    n, bad = 0, None
    for cls in all_module_classes():
        sgs = [None]
        st = getattr(cls, "speedgrade_timings", None)
        if st is not None:
            sgs += [k for k in st if k != "default"]
        for sg in sgs:
            try:
                mod = cls(100e6, "1:4" if cls.memtype in ("DDR3", "DDR4") else "1:2", speedgrade=sg)
            except Exception:  # noqa
                continue
            for name in M._speedgrade_timings + M._technology_timings:
                keys = [None]
                raw = getattr(getattr(mod, "technology_timings", None), name, None) if name in M._technology_timings else None
                if name in M._speedgrade_timings and st is not None:
                    raw = getattr(st["default" if sg is None else sg], name)
                if isinstance(raw, dict):
                    keys = list(raw.keys())
                for key in keys:
                    n += 1
                    got = mod.get(name, key)
                    exp = _entry(mod, name, sg, key)
                    g = None if got is None else (Fraction(got.ck), Fraction(got.ns))
                    if g != exp and bad is None:
                        bad = "%s.get(%s,%s) sg=%s: %s != %s" % (cls.__name__, name, key, sg, g, exp)
    r = _res("C16/SDRAMModule.get[]/pyvc/contract_returns_datasheet_entry_checked_natively@%d" % n,
             "proved" if bad is None else "failed", time.time() - t0, "exhaustive-enumeration(cpython)")
    if bad:
        r["where"] = bad
        r["reproduced"] = True
    return {"results": [r]}


def replay(rp):
    """re-run a recorded counterexample on the current tree"""
    a = rp["args"]
    if rp.get("fn") == "library_instance":
        cls = getattr(M, a["cls"])
        mod = cls(a["clk"], a["rate"], speedgrade=a["speedgrade"], fine_refresh_mode=a["fine_refresh_mode"])
        bad = check_instance(mod, cls, a["speedgrade"], a["fine_refresh_mode"], a["clk"], a["rate"])
        print("replay %s: %s" % (rp["obligation"], "VIOLATED on current tree: %s" % bad if bad else "not violated on current tree"))
        return 1 if bad else 0
    if rp.get("fn") in ("ns_to_cycles", "ck_to_cycles"):
        return _replay_conv(a, verbose=True)
    print("replay: nothing to run for %s" % rp.get("fn"))
    return 0


def _replay_conv(a, verbose=False):
    class _X(M.SDRAMModule):
        pass
    x = object.__new__(_X)
    f, d = Fraction(a["clk_freq"]), int(Fraction(a["d"]))
    x.clk_freq = float(f)
    x.rate = "1:%d" % d
    T = Fraction(10 ** 9) / f
    if a["fn"] == "ns_to_cycles":
        t = Fraction(a["t"])
        n = x.ns_to_cycles(float(t), margin=a["margin"])
        mg = T * (1 - Fraction(1, d)) if a["margin"] else 0
        bad = not (n * T - mg >= t and (n - 1) * T - mg < t)
    else:
        c = Fraction(a["c"])
        n = x.ck_to_cycles(float(c))
        bad = not (n * d >= c and (n - 1) * d < c)
    if verbose:
        print("replay %s(%s) -> %s: %s" % (a["fn"], a, n, "VIOLATED on current tree" if bad else "not violated on current tree"))
    return 1 if bad else 0


def finalize_failures(out):
    """write replay files for failed pyvc obligations that carry model arguments; replay natively"""
    for r in out["results"]:
        if r["status"] == "failed" and "replay" not in r:
            path = replay_path("C16", r["id"])
            rp = {"property": "C16", "obligation": r["id"], "module": "contracts.c16", "kind": "pyargs",
                  "args": r.get("model_args"), "fn": (r.get("model_args") or {}).get("fn"),
                  "solver": {"name": r["backend"], "status": "sat (obligation refuted)"}, "where": r.get("where")}
            rep = False
            if rp["fn"] in ("ns_to_cycles", "ck_to_cycles"):
                try:
                    rep = bool(_replay_conv(rp["args"]))
                except Exception as e:  # noqa
                    rp["native_error"] = str(e)
            elif rp["fn"] == "__init__":
                rep = _replay_init(rp)
            rp["reproduced"] = rep
            json.dump(rp, open(path, "w"), indent=1)
            r["replay"], r["reproduced"] = path, rep
    return out


def _replay_init(rp):
    """build a real module class carrying the model's datasheet numbers and check the instance with exact arithmetic"""
    a = rp["args"]
    try:
        tm = {}
        for k, (ck, ns) in a["timings"].items():
            name, key = k.split("/")
            tm.setdefault(name, {})[key] = (float(Fraction(ck)), float(Fraction(ns)))
        d = int(Fraction(a["d"]))

        def val(name):
            e = tm.get(name)
            if e is None:
                return None
            if list(e.keys()) == ["None"]:
                return e["None"]
            return {k: v for k, v in e.items()}
        memtype = "DDR4" if any(k != "None" for e in tm.values() for k in e) else "DDR3"

        class Cx(M.SDRAMModule):
            nbanks, nrows, ncols = 8, 8192, 1024
            technology_timings = M._TechnologyTimings(tREFI=val("tREFI"), tWTR=val("tWTR"), tCCD=val("tCCD"), tRRD=val("tRRD"),
                                                      tZQCS=val("tZQCS"))
            speedgrade_timings = {"default": M._SpeedgradeTimings(tRP=val("tRP"), tRCD=val("tRCD"), tWR=val("tWR"),
                                                                  tRFC=val("tRFC"), tFAW=val("tFAW"), tRAS=val("tRAS"))}
        Cx.memtype = memtype
        clk = float(Fraction(a["clk_freq"]))
        frm = None
        for e in tm.values():
            for k in e:
                if k != "None":
                    frm = k
        mod = Cx(clk, "1:%d" % d, fine_refresh_mode=frm)
        bad = check_instance(mod, Cx, None, frm, clk, "1:%d" % d)
        rp["native"] = {"violations": bad[:4]}
        return bool(bad)
    except Exception as e:  # noqa
        rp["native_error"] = "%s: %s" % (type(e).__name__, e)
        return False


def _wrap(fn):
    def g(cfg, tier):
        return finalize_failures(fn(cfg, tier))
    g.__name__ = fn.__name__
    return g


conversions = _wrap(conversions_task)
init_fields = _wrap(init_task)
spd_helpers = _wrap(spd_task)


def tasks(tier):
    out = [dict(kind="custom", fn="conversions", cfg={}), dict(kind="custom", fn="init_fields", cfg={}),
           dict(kind="custom", fn="spd_helpers", cfg={}), dict(kind="custom", fn="get_contract_task", cfg={}),
           dict(kind="custom", fn="spd_images_task", cfg={})]
    nparts = 10
    for p in range(nparts):
        out.append(dict(kind="custom", fn="library_task", cfg=dict(part=p, nparts=nparts), weight=5))
    return out
