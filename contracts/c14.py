"""C14 -- BIST generator writes its sequence, BIST checker reports exactly the positions that differ.

Contracts on the real elaborated _LiteDRAMBISTGenerator / _LiteDRAMBISTChecker (with their real DMA engines), induction:
  generator  G1  both sequence generators advance exactly on an accepted word (ce == dma.sink.valid & ready)
             G2  word k = (base_w + (addr_gen.o & mask), Replicate(data_gen.o)) -- the sequence position's word
             G3  ghost n = words accepted since start: cmd_counter == n while running, n < L; done => n == L words and
                 the writer FIFO is empty (everything handed to the port)
             G4  every address inside [base, end): proved for sequential addresses with length <= range and for 8-bit
                 ports; in general it is violated (mask is a BYTE mask applied to a WORD index) -> known finding
  checker    K1  address generator advances per accepted read command, data generator per received word
             K2  same address formula; ghost nc / nd = commands / words since start; done => nd == L
             K3  errors == ghost count of received words that differ from Replicate(data_gen.o) at their position
  both       R   the generators on both sides are the same function: equal state => equal output and equal next state
                 (relational, for all states), equal reset state.
Together with C12 (DMA: words in command order) this gives "exactly the number of positions that differ"; with a
faithful memory (C01) and no repeated address, zero.  Bounded end-to-end stand-in: generator then checker on an exact
4-cell memory (one NativePortSpec instance per cell), one cell corrupted by a free fault: errors == number of read commands
that hit the corrupted cell."""
import math
import z3
from .common import *
from vc.engine import Contract
from vc.shims import capture_locals
from litedram.frontend import bist as B
from .nativeport import _memory_env, byte_at

PROPERTY = "C14"
LEVEL = "proof"
_GenO = B._LiteDRAMBISTGenerator.__mro__[1]
_ChkO = B._LiteDRAMBISTChecker.__mro__[1]
_GeneratorO = B.Generator.__mro__[1]
FUNCTIONS = ["litedram.frontend.bist:_LiteDRAMBISTGenerator.__init__", "litedram.frontend.bist:_LiteDRAMBISTChecker.__init__",
             "litedram.frontend.bist:Generator.__init__", "litedram.frontend.bist:LFSR.__init__", "litedram.frontend.bist:Counter.__init__", "litedram.frontend.bist:get_ashift_awidth",
             "litedram.frontend.dma:LiteDRAMDMAWriter.__init__", "litedram.frontend.dma:LiteDRAMDMAReader.__init__"]
ASSUMPTIONS = [
    "preconditions of the property made explicit: end > base, end-base a power of two, at least one word (length >= word "
    "size), settings constant during a run, start only in the idle/reset state (software resets before each run)",
    "native port (the AXI variant only shifts the address); CSR wrappers / clock-domain crossing of the LiteDRAMBIST* "
    "front ends are not under contract",
    "errors / ticks are 32-bit counters (equality modulo 2^32)",
    "composition with C12 (words return in command order) and C01 (faithful memory) on paper; bounded end-to-end check on "
    "an exact 4-cell memory as a labelled stand-in",
    "per configuration (port widths 8/16/32/64)",
]
EXPLANATION = "induction on the real BIST cores with ghost position / error counters; relational generator equivalence"


def _mkport(cfg):
    return LiteDRAMNativePort("both", cfg.get("address_width", 8), cfg["data_width"])


def _repl(bv31, dw):
    n = math.ceil(dw / 31)
    x = z3.Concat(*([bv31] * n)) if n > 1 else bv31
    return z3.Extract(dw - 1, 0, x)


def _rewind(c, h, core, gens, tag):
    """the core's reset rewinds both sequence generators to the start of the sequence"""
    for nm, g in gens:
        gl = h.cap.of(g)
        st_, cnt_ = h.cap.of(gl["lfsr"])["state"], gl["count"].o
        c.ensures("%s.reset_rewinds_%s_sequence" % (tag, nm), lambda f, st_=st_, cnt_=cnt_: Implies(f.b(core.reset), And(
            f.nx(st_) == BV(st_.reset.value, len(st_)), f.nx(cnt_) == BV(cnt_.reset.value, len(cnt_)))))


class GenHarness(Module):
    def __init__(self, cfg):
        self.port = _mkport(cfg)
        with capture_locals(_GenO.__init__, _GeneratorO.__init__, B.LFSR.__init__) as cap:
            self.submodules.core = B._LiteDRAMBISTGenerator(self.port)
        self.cap, self.L = cap, cap.of(self.core)


def _settings(c, core, ashift, awidth):
    base, end, length = c.rigid("BASE", awidth), c.rigid("END", awidth), c.rigid("LEN", awidth)
    rd, ra = c.rigid("RDATA", 1), c.rigid("RADDR", 1)
    c.assume("settings_constant", lambda f: And(f(core.base) == base, f(core.end) == end, f(core.length) == length,
                                                f(core.random_data) == rd, f(core.random_addr) == ra))
    rng = end - base
    Lw = z3.LShR(length, ashift)
    c.assume("pre.range_power_of_two_and_one_word_at_least", lambda f: And(
        UGT(end, base), rng & (rng - 1) == 0, Lw != 0))
    return dict(base=base, end=end, length=length, rd=rd, ra=ra, rng=rng, Lw=Lw)


def generator_contract(cfg):
    h = GenHarness(cfg)
    core, port, L = h.core, h.port, h.L
    ashift, awidth = B.get_ashift_awidth(port)
    dma, fsm = L["dma"], L["fsm"]
    free = [core.start, core.base, core.end, core.length, core.random_data, core.random_addr, core.run_cascade_in,
            core.reset, port.cmd.ready, port.wdata.ready]
    c = Contract("_LiteDRAMBISTGenerator", h, free, cfg=cfg)
    S = _settings(c, core, ashift, awidth)
    aw = port.address_width
    Lw = z3.Extract(aw - 1, 0, S["Lw"])
    data_gen, addr_gen = L["data_gen"], L["addr_gen"]
    acc = lambda f: And(f.b(dma.sink.valid), f.b(dma.sink.ready))
    st = lambda f, *n: state_is(f, fsm, *n)
    rst = lambda f: f.b(core.reset)
    c.assume("pre.start_only_when_idle", lambda f: Implies(f.b(core.start), st(f, "IDLE")))
    c.ensures("G1.generators_advance_exactly_on_an_accepted_word", lambda f: And(
        f.b(data_gen.ce) == acc(f), f.b(addr_gen.ce) == acc(f)))
    mask = lambda f: S["rng"] - 1
    W = max(awidth, 31) + 1
    off = lambda f: zext(f(addr_gen.o), W) & zext(mask(f), W)
    base_w = z3.LShR(S["base"], ashift)
    c.ensures("G2.word_is_the_sequence_word_of_its_position", lambda f: And(
        eqv(f(dma.sink.address), z3.Extract(aw - 1, 0, zext(base_w, W) + off(f))),
        f(dma.sink.data) == _repl(f(data_gen.o), port.data_width),
        f(port.cmd.addr) == f(dma.sink.address), f.b(port.cmd.we)))
    c.ensures("G2.one_write_command_at_the_port_per_word", lambda f: And(f.b(port.cmd.valid), f.b(port.cmd.ready)) == acc(f))
    _rewind(c, h, core, [("data", data_gen), ("address", addr_gen)], "G1")
    c.ensures("G2.sequence_selected_by_the_random_flags", lambda f: And(
        f(data_gen.random_enable) == S["rd"], f(addr_gen.random_enable) == S["ra"]))
    c.ghost("n", aw, 0, lambda f: If_(rst(f), BV(0, aw), If_(And(st(f, "IDLE"), f.b(core.start)), BV(0, aw),
                                                             If_(acc(f), f.g.n + 1, f.g.n))))
    cc = L["cmd_counter"]
    c.invariant("G3.position_counter", lambda f: And(
        state_in_range(f, fsm),
        Implies(st(f, "RUN", "WAIT"), And(f(cc) == f.g.n, ULT(f.g.n, Lw))),
        Implies(st(f, "AWAIT_FIFO_EMPTY", "DONE"), f.g.n == Lw),
        Implies(st(f, "DONE"), Not(f.b(dma.fifo.source.valid)))))
    c.ensures("G3.done_after_exactly_length_words_all_handed_to_the_port", lambda f: Implies(
        f.b(core.done), And(f.g.n == Lw, Not(f.b(dma.fifo.source.valid)))))
    c.ensures("G3.words_only_while_running", lambda f: Implies(acc(f), st(f, "RUN")))
    # sequential counter position == n (so sequential addresses / data are base+k, k)
    cnt_a = h.cap.of(addr_gen)["count"].o
    c.parts = dict(h=h, S=S, Lw=Lw, off=off, base_w=base_w, W=W, acc=acc, st=st)
    end_w = z3.LShR(S["end"], ashift)
    inside = lambda f: And(UGE(zext(base_w, W) + off(f), zext(base_w, W)), ULT(zext(base_w, W) + off(f), zext(end_w, W)))
    if cfg.get("range_clause", "general") == "general":
        c.ensures("G4.every_address_inside_base_end", lambda f: Implies(acc(f), inside(f)))
    else:
        # sequential addresses, length within the range, counter started from its reset value (software resets first)
        rng_w = z3.LShR(S["rng"], ashift)
        c.assume("pre.sequential_and_length_within_range", lambda f: And(S["ra"] == 0, ULE(zext(Lw, W), zext(rng_w, W)),
                                                                         (S["base"] & BV((1 << ashift) - 1, awidth)) == 0,
                                                                         (S["end"] & BV((1 << ashift) - 1, awidth)) == 0))
        c.assume("pre.reset_before_start", lambda f: Implies(And(st(f, "IDLE"), f.b(core.start)), f(cnt_a) == 0))
        c.invariant("G4.sequential_address_counter_is_the_position", lambda f: Implies(
            st(f, "RUN", "WAIT"), eqv(z3.Extract(aw - 1, 0, f(cnt_a)), f.g.n) if aw <= 31 else True))
        c.invariant("G4.counter_upper_bits_zero", lambda f: Implies(st(f, "RUN", "WAIT"), ULT(zext(f(cnt_a), W), zext(Lw, W))))
        c.ensures("G4.every_address_inside_base_end", lambda f: Implies(acc(f), inside(f)))
    c.cover("done_reached", lambda f: f.b(core.done), within=12)
    return c


class ChkHarness(Module):
    def __init__(self, cfg):
        self.port = _mkport(cfg)
        with capture_locals(_ChkO.__init__, _GeneratorO.__init__, B.LFSR.__init__) as cap:
            self.submodules.core = B._LiteDRAMBISTChecker(self.port)
        self.cap, self.L = cap, cap.of(self.core)
        self._s = Signal()
        self.comb += self._s.eq(self.port.rdata.ready)


def checker_contract(cfg):
    h = ChkHarness(cfg)
    core, port, L = h.core, h.port, h.L
    ashift, awidth = B.get_ashift_awidth(port)
    dma, cfsm, dfsm = L["dma"], L["cmd_fsm"], L["data_fsm"]
    free = [core.start, core.base, core.end, core.length, core.random_data, core.random_addr, core.run_cascade_in,
            core.reset, port.cmd.ready, port.rdata.valid, port.rdata.data]
    c = Contract("_LiteDRAMBISTChecker", h, free, cfg=cfg)
    S = _settings(c, core, ashift, awidth)
    aw = port.address_width
    Lw = z3.Extract(aw - 1, 0, S["Lw"])
    data_gen, addr_gen = L["data_gen"], L["addr_gen"]
    cacc = lambda f: And(f.b(dma.sink.valid), f.b(dma.sink.ready))
    dacc = lambda f: And(f.b(dma.source.valid), f.b(dma.source.ready))
    cs = lambda f, *n: state_is(f, cfsm, *n)
    ds = lambda f, *n: state_is(f, dfsm, *n)
    rst = lambda f: f.b(core.reset)
    c.assume("pre.start_only_when_idle", lambda f: Implies(f.b(core.start), And(cs(f, "IDLE"), ds(f, "IDLE"))))
    c.ensures("K1.address_generator_advances_per_read_command_data_generator_per_received_word", lambda f: And(
        f.b(addr_gen.ce) == cacc(f), f.b(data_gen.ce) == dacc(f)))
    W = max(awidth, 31) + 1
    off = lambda f: zext(f(addr_gen.o), W) & zext(S["rng"] - 1, W)
    base_w = z3.LShR(S["base"], ashift)
    c.ensures("K2.read_address_is_the_sequence_address_of_its_position", lambda f: And(
        eqv(f(dma.sink.address), z3.Extract(aw - 1, 0, zext(base_w, W) + off(f))),
        f(port.cmd.addr) == f(dma.sink.address), Not(f.b(port.cmd.we)),
        f(data_gen.random_enable) == S["rd"], f(addr_gen.random_enable) == S["ra"]))
    c.ensures("K2.one_read_command_at_the_port_per_position", lambda f: And(f.b(port.cmd.valid), f.b(port.cmd.ready)) == cacc(f))
    _rewind(c, h, core, [("data", data_gen), ("address", addr_gen)], "K1")
    started = lambda f: And(cs(f, "IDLE"), f.b(core.start))
    z = lambda w: BV(0, w)
    c.ghost("nc", aw, 0, lambda f: If_(Or(rst(f), started(f)), z(aw), If_(cacc(f), f.g.nc + 1, f.g.nc)))
    c.ghost("nd", aw, 0, lambda f: If_(Or(rst(f), started(f)), z(aw), If_(dacc(f), f.g.nd + 1, f.g.nd)))
    mismatch = lambda f: f(dma.source.data) != _repl(f(data_gen.o), port.data_width)
    c.ghost("nerr", 32, 0, lambda f: If_(Or(rst(f), started(f)), z(32), If_(And(dacc(f), mismatch(f)), f.g.nerr + 1, f.g.nerr)))
    cc, dc = L["cmd_counter"], L["data_counter"]
    c.invariant("K2.command_position_counter", lambda f: And(
        state_in_range(f, cfsm), state_in_range(f, dfsm),
        Implies(cs(f, "RUN", "WAIT"), And(f(cc) == f.g.nc, ULT(f.g.nc, Lw))),
        Implies(cs(f, "DONE"), f.g.nc == Lw),
        Implies(cs(f, "IDLE"), ds(f, "IDLE")) if False else True))
    c.invariant("K3.data_position_and_error_counters", lambda f: And(
        Implies(ds(f, "RUN"), And(f(dc) == f.g.nd, ULT(f.g.nd, Lw), f(core.errors) == f.g.nerr)),
        Implies(ds(f, "DONE"), And(f.g.nd == Lw, f(core.errors) == f.g.nerr))))
    c.ensures("K3.done_reports_exactly_the_positions_that_differ", lambda f: Implies(
        f.b(core.done), And(f.g.nd == Lw, f(core.errors) == f.g.nerr)))
    c.ensures("K3.words_compared_only_while_running", lambda f: Implies(dacc(f), ds(f, "RUN")))
    c.cover("done_with_an_error", lambda f: And(f.b(core.done), f(core.errors) == 1), within=14)
    return c


class PairHarness(Module):
    def __init__(self, cfg):
        self.gport, self.cport = _mkport(cfg), _mkport(cfg)
        with capture_locals(_GenO.__init__, _ChkO.__init__, _GeneratorO.__init__, B.LFSR.__init__) as cap:
            self.submodules.gen = B._LiteDRAMBISTGenerator(self.gport)
            self.submodules.chk = B._LiteDRAMBISTChecker(self.cport)
        self.cap = cap


def same_generators_contract(cfg):
    """R: the address / data generators of the BIST generator and of the BIST checker are the same function"""
    h = PairHarness(cfg)
    cap = h.cap
    G, K = cap.of(h.gen), cap.of(h.chk)
    free = []
    for core, port in ((h.gen, h.gport), (h.chk, h.cport)):
        free += [core.start, core.base, core.end, core.length, core.random_data, core.random_addr, core.run_cascade_in, core.reset,
                 port.cmd.ready]
    free += [h.gport.wdata.ready, h.cport.rdata.valid, h.cport.rdata.data]
    c = Contract("BIST.generators", h, free, cfg=cfg)
    for which in ("data_gen", "addr_gen"):
        g, k = G[which], K[which]
        gl, kl = cap.of(g), cap.of(k)
        gs, ks = cap.of(gl["lfsr"])["state"], cap.of(kl["lfsr"])["state"]
        gc, kc = gl["count"].o, kl["count"].o
        same_state = lambda f, gs=gs, ks=ks, gc=gc, kc=kc: And(eqv(f(gs), f(ks)), eqv(f(gc), f(kc)))
        c.ensures(which + ".same_reset_state", lambda f, gs=gs, ks=ks, gc=gc, kc=kc: z3.BoolVal(
            gs.reset.value == ks.reset.value and gc.reset.value == kc.reset.value and len(gs) == len(ks) and len(gc) == len(kc)))
        c.ensures(which + ".equal_state_gives_equal_output", lambda f, g=g, k=k, ss=same_state: Implies(
            And(ss(f), f(g.random_enable) == f(k.random_enable)), eqv(f(g.o), f(k.o))))
        c.ensures(which + ".equal_state_steps_to_equal_state", lambda f, g=g, k=k, ss=same_state, gs=gs, ks=ks, gc=gc, kc=kc: Implies(
            And(ss(f), f.b(g.ce), f.b(k.ce), Not(f.b(h.gen.reset)), Not(f.b(h.chk.reset))),
            And(eqv(f.nx(gs), f.nx(ks)), eqv(f.nx(gc), f.nx(kc)))))
        c.ensures(which + ".holds_without_enable", lambda f, g=g, k=k, gs=gs, ks=ks, gc=gc, kc=kc: And(
            Implies(And(Not(f.b(g.ce)), Not(f.b(h.gen.reset))), And(f.nx(gs) == f(gs), f.nx(gc) == f(gc))),
            Implies(And(Not(f.b(k.ce)), Not(f.b(h.chk.reset))), And(f.nx(ks) == f(ks), f.nx(kc) == f(kc)))))
    c.ensures("same_word_replication", lambda f: z3.BoolVal(len(G["dma"].sink.data) == len(K["dma"].source.data)))
    return c


# ---- bounded end-to-end stand-in ---------------------------------------------------------------------------------------------

def end_to_end_contract(cfg):
    """real generator core, then real checker core, on an exact 4-cell byte memory (one NativePortSpec cell instance per
    address) with one freely chosen corrupted cell: errors == number of read commands that hit the corrupted cell"""
    h = PairHarness(dict(data_width=8, address_width=2))
    h._s = Signal()
    h.comb += h._s.eq(h.cport.rdata.ready)
    gen, chk, gp, cp = h.gen, h.chk, h.gport, h.cport
    free = []
    for core in (gen, chk):
        free += [core.start, core.base, core.end, core.length, core.random_data, core.random_addr]
    free += [gp.cmd.ready, gp.wdata.ready, cp.cmd.ready, cp.rdata.valid, cp.rdata.data]
    c = Contract("BIST.end_to_end", h, free, cfg=cfg)
    base, end, rd, ra = c.rigid("BASE", 2), c.rigid("END", 2), c.rigid("RDATA", 1), c.rigid("RADDR", 1)
    L = cfg.get("length", 2)
    c.assume("settings", lambda f: And(*[And(f(core.base) == base, f(core.end) == end, f(core.length) == L,
                                            f(core.random_data) == rd, f(core.random_addr) == ra) for core in (gen, chk)]))
    c.assume("pre.power_of_two_range_holding_the_sequence", lambda f: And(base == 0, end == 0))   # whole 4-cell memory
    bad_cell, bad_mask = c.rigid("BADCELL", 2), c.rigid("BADMASK", 8)
    for i in range(4):
        _memory_env(c, "cell%d" % i, BV(i, 2), BV(0, 1), c.rigid("init%d" % i, 8), 2, 2, wport=gp, rport=cp,
                    corrupt=If_(bad_cell == i, bad_mask, BV(0, 8)))
    G, K = h.cap.of(gen), h.cap.of(chk)
    gst = lambda f, *n: state_is(f, G["fsm"], *n)
    c.ghost("phase", 2, 0, lambda f: If_(And(f.g.phase == 0, f.b(gen.start)), BV(1, 2),
                                          If_(And(f.g.phase == 1, f.b(chk.start)), BV(2, 2), f.g.phase)))
    c.assume("script.generator_first_then_checker", lambda f: And(
        Implies(f.b(gen.start), f.g.phase == 0), Implies(f.b(chk.start), And(f.g.phase == 1, f.b(gen.done)))))
    wacc = lambda f: And(f.b(gp.cmd.valid), f.b(gp.cmd.ready))
    racc = lambda f: And(f.b(cp.cmd.valid), f.b(cp.cmd.ready))
    for i in range(4):
        c.ghost("wr%d" % i, 2, 0, lambda f, i=i: If_(And(wacc(f), f(gp.cmd.addr) == i, f.g["wr%d" % i] != 3), f.g["wr%d" % i] + 1, f.g["wr%d" % i]))
    repeated = lambda f: Or(*[UGE(f.g["wr%d" % i], BV(2, 2)) for i in range(4)])
    c.ghost("nbad", 32, 0, lambda f: If_(And(racc(f), f(cp.cmd.addr) == bad_cell, bad_mask != 0), f.g.nbad + 1, f.g.nbad))
    c.bounded("errors_equal_corrupted_positions_when_no_address_repeats", lambda f: Implies(
        And(f.b(chk.done), Not(repeated(f))), f(chk.errors) == f.g.nbad))
    c.cover("checker_done_with_one_error", lambda f: And(f.b(chk.done), f(chk.errors) == 1, Not(repeated(f))), within=cfg["depth"])
    c.cover("checker_done_without_error", lambda f: And(f.b(chk.done), f(chk.errors) == 0, Not(repeated(f))), within=cfg["depth"])
    return c


def tasks(tier):
    out = []
    widths = [8, 32] if tier == "quick" else [8, 16, 32, 64, 128]
    for dw in widths:
        out.append(dict(fn="generator_contract", cfg=dict(data_width=dw), modes=["inductive", "cover", "difftest"], weight=3,
                        search_depth=8))
        out.append(dict(fn="generator_contract", cfg=dict(data_width=dw, range_clause="sequential"), modes=["inductive"], weight=3))
        out.append(dict(fn="checker_contract", cfg=dict(data_width=dw), modes=["inductive", "cover", "difftest"], weight=3))
        out.append(dict(fn="same_generators_contract", cfg=dict(data_width=dw), modes=["inductive"], weight=2))
    d = 18 if tier == "quick" else 22
    out.append(dict(fn="end_to_end_contract", cfg=dict(depth=d, length=2 if tier == "quick" else 3), modes=["bounded", "cover"], depth=d,
                    weight=30, timeout_ms=3000000, oneshot=True))
    return out
