"""C12 -- DMA reader and writer stream exactly once, in order, without overrun.

Real LiteDRAMDMAReader / LiteDRAMDMAWriter (native port; LiteX stream.SyncFIFO + Migen SyncFIFO as elaborated), all
inputs free (addresses, data, producer/consumer stalls, memory response timing) under the native port's guarantees
(NativePortSpec: a response only for an outstanding read, responses in command order; write data taken in command order).
Reader, by induction: reservation invariant res_fifo.level = reads in flight + words buffered <= depth, hence a returned
word always finds room (no overrun however long the consumer stalls); a *watched* command chosen freely among all
accepted ones: its `last` mark travels through the reservation FIFO, its returned word through the data FIFO, and both
leave together: the word delivered for it is its own data with its own end-of-stream mark, after exactly the words of the
commands accepted before it.  Writer: #commands accepted - #data words taken = FIFO level; a watched (address, data) pair:
its data is pushed in the cycle its command is accepted and is presented to the port when the data of all earlier commands
has been taken -- paired with its own address, exactly once.
"""
import z3
from .common import *
from vc.engine import Contract
from vc.shims import capture_locals
from litedram.frontend.dma import LiteDRAMDMAReader, LiteDRAMDMAWriter
from migen.genlib import fifo as mfifo
from .fifo_lemma import fifo_parts, add_fifo_invariants, add_watched_item, push_event, pop_event, inner_sync_fifo

PROPERTY = "C12"
LEVEL = "proof"
FUNCTIONS = ["litedram.frontend.dma:LiteDRAMDMAReader.__init__", "litedram.frontend.dma:LiteDRAMDMAWriter.__init__",
             "litex.soc.interconnect.stream:_FIFOWrapper.__init__", "migen.genlib.fifo:SyncFIFO.__init__",
             "migen.genlib.fifo:SyncFIFOBuffered.__init__"]
ASSUMPTIONS = [
    "NativePortSpec as environment: rdata.valid only while a read is outstanding, responses / write-data strobes in "
    "command order (guaranteed by the core, C01 lemmas L1-L4); the port ignores rdata.ready (as the crossbar does)",
    "per configuration (FIFO depths incl. the minimal one, buffered / unbuffered); native port (the AXI variant only renames "
    "the channels)",
    "enable = 1 (the flush-when-disabled path is outside the property)",
]
EXPLANATION = "inductive invariants on the real elaborated DMA engines with watched-item ghosts through the real FIFOs"


class ReaderHarness(Module):
    def __init__(self, cfg):
        self.port = LiteDRAMNativePort("read", 12, cfg.get("data_width", 16))
        with capture_locals(mfifo.SyncFIFO.__init__, LiteDRAMDMAReader.__init__) as cap:
            self.submodules.dma = LiteDRAMDMAReader(self.port, fifo_depth=cfg["depth"], fifo_buffered=cfg.get("buffered", False))
        self.cap = cap
        self.L = cap.of(self.dma)
        self.pick = Signal()
        self._s = Signal()
        self.comb += self._s.eq(self.pick)


def reader_contract(cfg):
    h = ReaderHarness(cfg)
    dma, port, L = h.dma, h.port, h.L
    depth = cfg["depth"]
    buffered = cfg.get("buffered", False)
    free = [dma.sink.valid, dma.sink.address, dma.sink.last, dma.sink.first, dma.source.ready, port.cmd.ready,
            port.rdata.valid, port.rdata.data, h.pick]
    c = Contract("LiteDRAMDMAReader", h, free, cfg=cfg)
    res_fifo, fifo = L["res_fifo"], L["fifo"]
    res_in, res_wrap = inner_sync_fifo(res_fifo)
    dat_in, dat_wrap = inner_sync_fifo(fifo)
    Pres = fifo_parts(c, res_in, h.cap)
    Pdat = fifo_parts(c, dat_in, h.cap)
    add_fifo_invariants(c, Pres, "res_fifo")
    add_fifo_invariants(c, Pdat, "data_fifo")
    W = 8
    acc = lambda f: And(f.b(port.cmd.valid), f.b(port.cmd.ready))
    ret = lambda f: f.b(port.rdata.valid)
    c.ghost("inflight", W, 0, lambda f: f.g.inflight + If_(acc(f), BV(1, W), BV(0, W)) - If_(ret(f), BV(1, W), BV(0, W)))
    c.assume("env.response_only_for_outstanding_read", lambda f: Implies(ret(f), f.g.inflight != 0))
    buf_extra = (lambda f: zext(f(dat_wrap.readable), W)) if dat_wrap is not None else (lambda f: BV(0, W))
    res_extra = (lambda f: zext(f(res_wrap.readable), W)) if res_wrap is not None else (lambda f: BV(0, W))
    stored = lambda f: zext(f(Pdat["level"]), W) + buf_extra(f)          # words held by the data FIFO (incl. output register)
    reserved = lambda f: zext(f(Pres["level"]), W) + res_extra(f)
    c.invariant("reservation_equals_inflight_plus_buffered", lambda f: And(
        reserved(f) == f.g.inflight + stored(f), ULE(f.g.inflight, BV(depth, W))))
    c.ensures("returned_word_always_finds_room", lambda f: Implies(ret(f), f.b(fifo.sink.ready)))
    c.ensures("never_more_reads_than_can_be_buffered", lambda f: Implies(
        acc(f), ULT(f.g.inflight + stored(f), BV(depth, W))))
    c.ensures("output_only_with_a_reservation", lambda f: Implies(f.b(dma.source.valid), f.b(res_fifo.source.valid)))
    c.ensures("command_is_a_read_of_the_offered_address", lambda f: And(
        Not(f.b(port.cmd.we)), f(port.cmd.addr) == f(dma.sink.address),
        f.b(dma.sink.ready) == And(f.b(port.cmd.ready), f.b(res_fifo.sink.ready)),
        acc(f) == And(f.b(dma.sink.valid), f.b(dma.sink.ready))))
    # ---- watched command: chosen freely at acceptance
    pick = lambda f: f.b(h.pick)
    rw = add_watched_item(c, Pres, "rw", pick)                   # its `last` mark through the reservation FIFO
    g = lambda f, k: f.g[k]
    picked_now = rw["picked_now"]
    # outstanding reads accepted before the watched one (its own response comes after theirs)
    c.ghost("cmds_ahead", W, 0, lambda f: If_(
        picked_now(f), f.g.inflight - If_(ret(f), BV(1, W), BV(0, W)),
        If_(And(f.g.wst == 1, ret(f), f.g.cmds_ahead != 0), f.g.cmds_ahead - 1, f.g.cmds_ahead)))
    # wst: 0 not picked, 1 waiting for its response, 2 response arrived (in data FIFO or beyond)
    my_response = lambda f: And(f.g.wst == 1, ret(f), f.g.cmds_ahead == 0)
    c.ghost("wst", 2, 0, lambda f: If_(picked_now(f), BV(1, 2), If_(my_response(f), BV(2, 2), f.g.wst)))
    c.ghost("wdata", len(port.rdata.data), 0, lambda f: If_(my_response(f), f(port.rdata.data), f.g.wdata))
    c.ghost("wlast", "bool", False, lambda f: If_(picked_now(f), f.b(dma.sink.last), f.g.wlast))
    # the response enters the data FIFO in the cycle it arrives: watched item there
    dw = add_watched_item(c, Pdat, "dw", my_response)
    dq = dw["g"]
    c.invariant("watch.phases_consistent", lambda f: And(
        (f.g.wst == 0) == (rw["g"](f, "st") == 0),
        Implies(f.g.wst == 1, And(rw["g"](f, "st") == 1, dq(f, "st") == 0)),
        Implies(dq(f, "st") != 0, f.g.wst == 2),
        Implies(f.g.wst == 2, dq(f, "st") != 0),
        ULE(f.g.wst, BV(2, 2))))
    aw_r = len(Pres["level"]) + 1
    c.invariant("watch.waiting_behind_outstanding_and_buffered", lambda f: Implies(f.g.wst == 1, And(
        ULT(f.g.cmds_ahead, f.g.inflight),
        zext(rw["g"](f, "ahead"), W) == f.g.cmds_ahead + stored(f))))
    if dat_wrap is None and res_wrap is None:
        c.invariant("watch.mark_and_word_aligned", lambda f: Implies(And(f.g.wst == 2, dq(f, "st") == 1), And(
            rw["g"](f, "st") == 1, zext(rw["g"](f, "ahead"), W) == zext(dq(f, "ahead"), W),
            z3.Extract(len(port.rdata.data) - 1, 0, dq(f, "val")) == f.g.wdata)))
        c.invariant("watch.mark_value", lambda f: Implies(rw["g"](f, "st") == 1,
                                                          _last_of(rw["g"](f, "val"), res_fifo) == f.g.wlast))
        c.invariant("watch.delivered_together", lambda f: (dq(f, "st") == 2) == (rw["g"](f, "st") == 2))
        c.ensures("watched_word_delivered_with_its_own_data_and_end_mark_in_order", lambda f: Implies(
            dw["delivered_now"](f), And(
                f.b(dma.source.valid), f.b(dma.source.ready), f(dma.source.data) == f.g.wdata,
                f.b(dma.source.last) == f.g.wlast, rw["delivered_now"](f))))
    c.cover("a_word_is_delivered", lambda f: dq(f, "st") == 2, within=3 * depth + 10)
    c.cover("reservation_full_with_consumer_stalled", lambda f: And(
        reserved(f) == depth, Not(f.b(dma.source.ready))), within=2 * depth + 6)
    return c


def _last_of(val, sfifo):
    """`last` bit of a word stored in a LiteX stream FIFO (layout: payload, param, first, last)"""
    return z3.Extract(val.size() - 1, val.size() - 1, val) == 1


class WriterHarness(Module):
    def __init__(self, cfg):
        self.port = LiteDRAMNativePort("write", 12, cfg.get("data_width", 16))
        with capture_locals(mfifo.SyncFIFO.__init__, LiteDRAMDMAWriter.__init__) as cap:
            self.submodules.dma = LiteDRAMDMAWriter(self.port, fifo_depth=cfg["depth"], fifo_buffered=cfg.get("buffered", False))
        self.cap = cap
        self.pick = Signal()
        self._s = Signal()
        self.comb += self._s.eq(self.pick)


def writer_contract(cfg):
    h = WriterHarness(cfg)
    dma, port = h.dma, h.port
    depth = cfg["depth"]
    buffered = cfg.get("buffered", False)
    free = [dma.sink.valid, dma.sink.address, dma.sink.data, dma.sink.last, dma.sink.first, port.cmd.ready,
            port.wdata.ready, h.pick]
    c = Contract("LiteDRAMDMAWriter", h, free, cfg=cfg)
    fifo = dma.fifo
    inner, wrap = inner_sync_fifo(fifo)
    P = fifo_parts(c, inner, h.cap)
    add_fifo_invariants(c, P, "data_fifo")
    W = 8
    acc = lambda f: And(f.b(port.cmd.valid), f.b(port.cmd.ready))
    taken = lambda f: And(f.b(port.wdata.valid), f.b(port.wdata.ready))
    c.ghost("owed", W, 0, lambda f: f.g.owed + If_(acc(f), BV(1, W), BV(0, W)) - If_(taken(f), BV(1, W), BV(0, W)))
    buf_extra = (lambda f: zext(f(wrap.readable), W)) if wrap is not None else (lambda f: BV(0, W))
    stored = lambda f: zext(f(P["level"]), W) + buf_extra(f)
    c.invariant("commands_minus_data_taken_is_the_fifo_content", lambda f: f.g.owed == stored(f))
    c.ensures("command_writes_the_offered_address_all_bytes", lambda f: And(
        f.b(port.cmd.we), f(port.cmd.addr) == f(dma.sink.address),
        f(port.wdata.we) == BV((1 << len(port.wdata.we)) - 1, len(port.wdata.we))))
    c.ensures("pair_consumed_iff_command_accepted_iff_data_pushed", lambda f: And(
        acc(f) == And(f.b(dma.sink.valid), f.b(dma.sink.ready)),
        acc(f) == push_event(f, P)))
    c.ensures("data_offered_only_for_an_accepted_command", lambda f: Implies(f.b(port.wdata.valid), f.g.owed != 0))
    pick = lambda f: f.b(h.pick)
    dw = add_watched_item(c, P, "dw", pick)
    c.ghost("waddr", len(port.cmd.addr), 0, lambda f: If_(dw["picked_now"](f), f(port.cmd.addr), f.g.waddr))
    c.ghost("wdata", len(port.wdata.data), 0, lambda f: If_(dw["picked_now"](f), f(dma.sink.data), f.g.wdata))
    if wrap is None:
        c.invariant("watch.value_is_the_pair_data", lambda f: Implies(
            dw["g"](f, "st") == 1, z3.Extract(len(port.wdata.data) - 1, 0, dw["g"](f, "val")) == f.g.wdata))
        c.ensures("watched_data_presented_in_turn_paired_with_its_own_address", lambda f: Implies(
            dw["delivered_now"](f), And(taken(f), f(port.wdata.data) == f.g.wdata)))
        c.ensures("watched_command_carries_watched_address", lambda f: Implies(
            dw["picked_now"](f), And(acc(f), f(port.cmd.addr) == f(dma.sink.address))))
    c.cover("data_taken", lambda f: dw["g"](f, "st") == 2, within=2 * depth + 8)
    c.cover("fifo_full", lambda f: zext(f(P["level"]), W) == depth, within=depth + 4)
    return c


def tasks(tier):
    out = []
    cfgs = [dict(depth=2), dict(depth=4), dict(depth=8), dict(depth=4, buffered=True), dict(depth=2, buffered=True)]
    if tier != "quick":
        cfgs += [dict(depth=16), dict(depth=16, buffered=True), dict(depth=3), dict(depth=8, data_width=32, buffered=True)]
    for cfg in cfgs:
        tmo = 120000 if cfg["depth"] <= 8 else 1500000
        out.append(dict(fn="reader_contract", cfg=cfg, modes=["inductive", "cover", "difftest"], weight=cfg["depth"], timeout_ms=tmo))
        out.append(dict(fn="writer_contract", cfg=cfg, modes=["inductive", "cover", "difftest"], weight=cfg["depth"], timeout_ms=tmo))
    return out
