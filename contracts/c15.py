"""C15 -- ECC port corrects any single and flags any double bit error; granularity errors.

(A) SECDED core: the real LiteDRAMNativePortECCW and LiteDRAMNativePortECCR (with LiteX ECCEncoder/ECCDecoder as
    elaborated) connected through a free `flip` mask = the stored word with arbitrary bit flips.  Combinational validity
    for all data words, all flip positions (symbolic one-hot / two-hot masks), every lane, while the other lanes carry
    arbitrary data and arbitrary flips (frame).
(B) byte-enable widening and the granularity flag (combinational).
(C) the complete LiteDRAMNativePortECC (CSR shims): pipeline registers, error counters, sticky flags, enable, clear,
    proved against reference instances of (A)'s modules (callee contracts) by induction.
"""
import z3
from .common import *
from vc.engine import Contract
from vc.shims import capture_locals
from litedram.frontend.ecc import LiteDRAMNativePortECCW, LiteDRAMNativePortECCR, LiteDRAMNativePortECC
from litex.soc.cores.ecc import compute_m_n

PROPERTY = "C15"
LEVEL = "proof"
FUNCTIONS = ["litedram.frontend.ecc:LiteDRAMNativePortECCW.__init__", "litedram.frontend.ecc:LiteDRAMNativePortECCR.__init__",
             "litedram.frontend.ecc:LiteDRAMNativePortECC.__init__", "litex.soc.cores.ecc:ECCEncoder.__init__",
             "litex.soc.cores.ecc:ECCDecoder.__init__"]
ASSUMPTIONS = [
    "per configuration: lane widths 8/16/32/64 data bits x 8 lanes (the real burst layout); flips are applied to the word "
    "between the write-path output and the read-path input (the stored word)",
    "returned read words are presented for one cycle each (the native port's rdata has no back-pressure in the core), so "
    "one count per word",
    "CSR bus writes to `enable`/`clear` are free inputs (software behaviour not modelled)",
]
EXPLANATION = ("SECDED and granularity clauses are combinational validity obligations over the real elaborated encoder/"
               "decoder lanes for all data and all flip positions; counters/flags by induction.")


def popcount_is(bv, k):
    n = bv.size()
    w = n.bit_length() + 1
    tot = z3.Sum([z3.ZeroExt(w - 1, z3.Extract(i, i, bv)) for i in range(n)]) if n > 1 else z3.ZeroExt(w - 1, bv)
    return tot == BV(k, w)


class PairHarness(Module):
    def __init__(self, k, lanes=8):
        m, n = compute_m_n(k)
        self.k, self.n, self.lanes = k, n, lanes
        self.lane_to = lane_to = ((n + 1 + 7) // 8) * 8
        self.dw_from, self.dw_to = k * lanes, lane_to * lanes
        self.submodules.w = LiteDRAMNativePortECCW(self.dw_from, self.dw_to, lanes)
        self.submodules.r = LiteDRAMNativePortECCR(self.dw_from, self.dw_to, lanes)
        self.flip = Signal(self.dw_to)
        self.comb += [
            self.r.sink.valid.eq(self.w.source.valid),
            self.r.sink.data.eq(self.w.source.data ^ self.flip),
        ]


def secded_contract(cfg):
    k, lanes = cfg["k"], cfg.get("lanes", 8)
    h = PairHarness(k, lanes)
    w, r = h.w, h.r
    free = [w.sink.valid, w.sink.data, w.sink.we, w.sink.last, w.sink.first, w.source.ready, r.source.ready,
            r.enable, h.flip]
    c = Contract("ECCW+ECCR", h, free, cfg=cfg)
    n1 = h.n + 1          # stored code bits per lane (Hamming + overall parity at bit 0)
    L = h.lane_to
    c.assume("decoder_enabled", lambda f: f.b(r.enable))
    c.assume("word_valid", lambda f: f.b(w.sink.valid))
    for i in cfg.get("check_lanes", range(lanes)):
        din = lambda f, i=i: z3.Extract((i + 1) * k - 1, i * k, f(w.sink.data))
        dout = lambda f, i=i: z3.Extract((i + 1) * k - 1, i * k, f(r.source.data))
        fl = lambda f, i=i: z3.Extract(i * L + n1 - 1, i * L, f(h.flip))
        sec = lambda f, i=i: z3.Extract(i, i, f(r.sec)) == 1
        ded = lambda f, i=i: z3.Extract(i, i, f(r.ded)) == 1
        par_only = lambda f, fl=fl: fl(f) == BV(1, n1)
        c.ensures("lane%d.clean_roundtrip" % i, lambda f, din=din, dout=dout, fl=fl, sec=sec, ded=ded: Implies(
            fl(f) == 0, And(dout(f) == din(f), Not(sec(f)), Not(ded(f)))))
        c.ensures("lane%d.single_flip_corrected" % i,
                  lambda f, din=din, dout=dout, fl=fl, sec=sec, ded=ded, par_only=par_only: Implies(
                      popcount_is(fl(f), 1),
                      And(dout(f) == din(f), Not(ded(f)), sec(f) == Not(par_only(f)))))
        c.ensures("lane%d.double_flip_flagged" % i, lambda f, fl=fl, sec=sec, ded=ded: Implies(
            popcount_is(fl(f), 2), And(ded(f), Not(sec(f)))))
    c.ensures("handshake_passthrough", lambda f: And(
        f(w.source.valid) == f(w.sink.valid), f(w.sink.ready) == f(w.source.ready),
        f(r.source.valid) == f(r.sink.valid), f(r.sink.ready) == f(r.source.ready)))
    return c


def secded_gating_contract(cfg):
    """no word -> no report; decoder disabled -> data passed through unmodified (code bits extracted), no report"""
    k, lanes = cfg["k"], cfg.get("lanes", 8)
    h = PairHarness(k, lanes)
    w, r = h.w, h.r
    free = [w.sink.valid, w.sink.data, w.sink.we, w.sink.last, w.sink.first, w.source.ready, r.source.ready,
            r.enable, h.flip]
    c = Contract("ECCR-gating", h, free, cfg=cfg)
    c.ensures("no_report_without_valid_word", lambda f: Implies(
        Not(f.b(r.sink.valid)), And(f(r.sec) == 0, f(r.ded) == 0)))
    c.ensures("disabled_decoder_reports_nothing_when_clean", lambda f: Implies(
        And(Not(f.b(r.enable)), f(h.flip) == 0), And(f(r.sec) == 0, f(r.ded) == 0,
                                                   f(r.source.data) == f(w.sink.data))))
    c.ensures("disabled_decoder_never_flags_uncorrectable_as_corrected_data_change", lambda f: Implies(
        Not(f.b(r.enable)), f(r.sec) == 0))
    return c


def we_contract(cfg):
    k, lanes = cfg["k"], cfg.get("lanes", 8)
    h = PairHarness(k, lanes)
    w = h.w
    free = [w.sink.valid, w.sink.data, w.sink.we, w.sink.last, w.sink.first, w.source.ready, h.r.source.ready,
            h.r.enable, h.flip]
    c = Contract("ECCW-we", h, free, cfg=cfg)
    bf, bt = k // 8, h.lane_to // 8
    lane_we = lambda f, i: z3.Extract((i + 1) * bf - 1, i * bf, f(w.sink.we))
    lane_we_to = lambda f, i: z3.Extract((i + 1) * bt - 1, i * bt, f(w.source.we))
    full = BV((1 << bf) - 1, bf)
    all_full = lambda f: And(*[lane_we(f, i) == full for i in range(lanes)])
    for i in range(lanes):
        c.ensures("lane%d.stored_enables_all_or_nothing" % i, lambda f, i=i: lane_we_to(f, i) == If_(
            lane_we(f, i) != 0, BV((1 << bt) - 1, bt), BV(0, bt)))
    c.ensures("full_write_is_not_a_granularity_error", lambda f: Implies(all_full(f), Not(f.b(w.we_error))))
    c.ensures("partial_write_is_a_granularity_error", lambda f: Implies(
        And(f.b(w.sink.valid), Not(all_full(f))), f.b(w.we_error)))
    c.ensures("no_error_without_a_write", lambda f: Implies(Not(f.b(w.sink.valid)), Not(f.b(w.we_error))))
    return c


class TopHarness(Module):
    """the real LiteDRAMNativePortECC next to reference ECCW/ECCR instances fed with the same inputs"""

    def __init__(self, k, lanes=8):
        m, n = compute_m_n(k)
        lane_to = ((n + 1 + 7) // 8) * 8
        self.dw_from, self.dw_to = k * lanes, lane_to * lanes
        self.pf = pf = LiteDRAMNativePort("both", 20, self.dw_from)
        self.pt = pt = LiteDRAMNativePort("both", 20, self.dw_to)
        with capture_locals(LiteDRAMNativePortECC.__init__) as cap:
            self.submodules.ecc = ecc = LiteDRAMNativePortECC(pf, pt, burst_cycles=lanes, with_we_error_detection=True)
        self.L = cap.of(ecc)
        self.submodules.rw = rw = LiteDRAMNativePortECCW(self.dw_from, self.dw_to, lanes)
        self.submodules.rr = rr = LiteDRAMNativePortECCR(self.dw_from, self.dw_to, lanes)
        self.comb += [
            rw.sink.valid.eq(pf.wdata.valid), rw.sink.data.eq(pf.wdata.data), rw.sink.we.eq(pf.wdata.we),
            rw.source.ready.eq(1),
            rr.sink.valid.eq(pt.rdata.valid), rr.sink.data.eq(pt.rdata.data), rr.enable.eq(ecc.enable.storage),
            rr.source.ready.eq(1),
        ]


def top_contract(cfg):
    k, lanes = cfg["k"], cfg.get("lanes", 8)
    h = TopHarness(k, lanes)
    ecc, pf, pt, rw, rr = h.ecc, h.pf, h.pt, h.rw, h.rr
    clear = ecc.clear
    free = [pf.cmd.valid, pf.cmd.we, pf.cmd.addr, pf.cmd.last, pf.cmd.first, pf.wdata.valid, pf.wdata.data, pf.wdata.we,
            pf.wdata.last, pf.wdata.first, pf.rdata.ready, pt.cmd.ready, pt.wdata.ready, pt.rdata.valid, pt.rdata.data,
            pt.rdata.last, pt.rdata.first, pf.flush, clear.re, clear.r, ecc.enable.storage]
    c = Contract("LiteDRAMNativePortECC", h, free, cfg=cfg)
    sec_e, ded_e, we_e = ecc.sec_errors.status, ecc.ded_errors.status, ecc.we_errors.status
    clr = lambda f: f.b(clear.re)
    c.assume("read_data_always_accepted", lambda f: f.b(pf.rdata.ready))
    dwf, dwt = h.dw_from, h.dw_to
    # ghost pipeline of the reference modules' outputs (one register stage in the real module)
    c.ghost("rv", "bool", False, lambda f: f.b(rr.source.valid))
    c.ghost("rd", dwf, 0, lambda f: f(rr.source.data))
    c.ghost("wv", "bool", False, lambda f: If_(Or(f.b(pt.wdata.ready), Not(f.g.wv)), f.b(rw.source.valid), f.g.wv))
    c.ghost("wd", dwt, 0, lambda f: If_(Or(f.b(pt.wdata.ready), Not(f.g.wv)), f(rw.source.data), f.g.wd))
    c.ghost("wwe", dwt // 8, 0, lambda f: If_(Or(f.b(pt.wdata.ready), Not(f.g.wv)), f(rw.source.we), f.g.wwe))
    c.invariant("read_path_is_reference_decoder_delayed_one_cycle", lambda f: And(
        f.b(pf.rdata.valid) == f.g.rv, Implies(f.g.rv, f(pf.rdata.data) == f.g.rd)))
    c.invariant("write_path_is_reference_encoder_buffered", lambda f: And(
        f.b(pt.wdata.valid) == f.g.wv, Implies(f.g.wv, And(f(pt.wdata.data) == f.g.wd, f(pt.wdata.we) == f.g.wwe))))
    mx = (1 << 32) - 1

    def counter_rule(f, cnt, event):
        cur = f(cnt)
        return f.nx(cnt) == If_(clr(f), BV(0, 32), If_(And(event, cur != BV(mx, 32)), cur + 1, cur))
    c.ensures("corrected_errors_counted_once_per_word", lambda f: counter_rule(f, sec_e, f(rr.sec) != 0))
    c.ensures("uncorrectable_errors_counted_once_per_word", lambda f: counter_rule(f, ded_e, f(rr.ded) != 0))
    c.ensures("granularity_errors_counted_once_per_write", lambda f: counter_rule(f, we_e, f.b(rw.we_error)))
    c.ensures("sticky_flags", lambda f: And(
        f.nx(ecc.sec_detected) == If_(clr(f), BV(0, 1), If_(And(f(rr.sec) != 0, f(sec_e) != BV(mx, 32)), BV(1, 1), f(ecc.sec_detected))),
        f.nx(ecc.ded_detected) == If_(clr(f), BV(0, 1), If_(And(f(rr.ded) != 0, f(ded_e) != BV(mx, 32)), BV(1, 1), f(ecc.ded_detected)))))
    c.ensures("commands_pass_through", lambda f: And(
        f(pt.cmd.valid) == f(pf.cmd.valid), f(pt.cmd.we) == f(pf.cmd.we), f(pt.cmd.addr) == f(pf.cmd.addr),
        f(pf.cmd.ready) == f(pt.cmd.ready)))
    c.ensures("write_word_taken_iff_buffer_free", lambda f: f.b(pf.wdata.ready) == Or(f.b(pt.wdata.ready), Not(f.g.wv)))
    c.cover("a_corrected_error_is_counted", lambda f: f(sec_e) == 1, within=6)
    c.cover("an_uncorrectable_error_is_counted", lambda f: f(ded_e) == 1, within=6)
    c.cover("encoded_word_reaches_memory_port", lambda f: f.b(pt.wdata.valid), within=4)
    return c


def tasks(tier):
    out = []
    ks = [8, 16, 32, 64]
    for k in ks:
        groups = {8: [list(range(8))], 16: [list(range(8))], 32: [[0, 1, 2, 3], [4, 5, 6, 7]],
                  64: [[0, 1], [2, 3], [4, 5], [6, 7]]}[k]
        for gi, g in enumerate(groups):
            out.append(dict(fn="secded_contract", cfg=dict(k=k, check_lanes=g),
                            modes=["inductive", "difftest"] if gi == 0 else ["inductive"], weight=k,
                            difftest_cycles=10 if tier == "quick" else 100))
        out.append(dict(fn="secded_gating_contract", cfg=dict(k=k), modes=["inductive"], weight=k // 4))
        out.append(dict(fn="we_contract", cfg=dict(k=k), modes=["inductive"], weight=1))
    for k in ([8, 32] if tier == "quick" else ks):
        out.append(dict(fn="top_contract", cfg=dict(k=k), modes=["inductive", "cover", "difftest"], weight=k,
                        difftest_cycles=20 if tier == "quick" else 100))
    return out
