"""C19 -- the bundled DRAM simulation model (litedram/phy/model.py) agrees with an independent DRAM reference.

Reference (ghost state, written from the JEDEC command semantics, independent of model.py): per bank open flag and open
row driven by ACT / PRE / PREA on any phase; RD/WR with A10 set closes the bank (auto-precharge); a *watched cell* (rigid bank, row, burst-aligned column, byte lane, symbolic
initial byte): a WR whose bank's open row and column select it updates the byte `write_latency` cycles later from the
concatenated phase data unless masked; a RD returns, `read_latency` cycles later, rddata_valid on every phase and (if it
selects the watched cell) the reference byte.  Column of a command = address bits A0..A9, A11.. (A10 is the auto-precharge /
all-banks flag, never a column bit).
Obligations on the real elaborated SDRAMPHYModel (its Memories lowered by Migen's MemoryToArray), k-induction with
k = max(read_latency, write_latency)+1 so that no invariant has to name the model's internal delay registers:
  * model bank active/row == reference open/row                                  (state agreement)
  * model memory byte of the watched cell == reference byte                      (same final memory contents, all cells by
                                                                                 data independence)
  * rddata_valid / rddata of the watched cell == reference read pipeline         (same read data at the advertised latency)
Legal traces (assumptions = what a JEDEC-legal, timing-respecting trace guarantees): at most one ACT, one PRE and one RD/WR
per controller cycle (tRRD/tCCD >= phases), ACT only to a closed bank, RD/WR only to an open bank, no RD/PRE/ACT racing a
write whose data is still in flight (tWTR/tWR), cs asserted for rank 0.
Init image layout (__prepare_bank_init_data): executed for enumerated geometries / image lengths / both mappings and
compared with an independent byte-address layout function -- bounded, labelled.
"""
import random
import z3
from .common import *
from vc.engine import Contract
from vc.shims import capture_locals
from litedram.phy.model import SDRAMPHYModel, BankModel
from litedram.common import PhySettings, GeomSettings
from .nativeport import byte_at, bit_at

PROPERTY = "C19"
LEVEL = "proof"
FUNCTIONS = ["litedram.phy.model:BankModel.__init__", "litedram.phy.model:DFIPhaseModel.__init__",
             "litedram.phy.model:SDRAMPHYModel.__init__", "litedram.phy.model:SDRAMPHYModel._SDRAMPHYModel__prepare_bank_init_data"]
ASSUMPTIONS = [
    "legal-trace premises as listed in the module docstring (one ACT / PRE / column command per cycle; ACT to closed bank; "
    "RD/WR to open bank; no command racing in-flight write data); timing values themselves are not part of the reference",
    "single rank (the model has no multi-rank support: its own TODO)",
    "per configuration: tiny geometries (rows/columns) so that the model's memories can be lowered to registers; memory "
    "types by their (phases, burst, latencies) tuples; we_granularity=8 (byte masks) and 0 (masks must be 0)",
    "init image layout: bounded enumeration (executed natively) - not counted as proved",
    "the timing checker (DFITimingsChecker, verbosity>0) only prints and is not under contract",
]
EXPLANATION = "k-induction on the real elaborated model against a ghost reference DRAM with a watched cell"


class _Mod:
    def __init__(self, bankbits, rowbits, colbits, addressbits):
        self.geom_settings = GeomSettings(bankbits=bankbits, rowbits=rowbits, colbits=colbits)
        self.geom_settings.addressbits = addressbits
        self.memtype = "x"
        self.timing_settings = None


class ModelHarness(Module):
    def __init__(self, cfg):
        self.cfg = cfg
        s = PhySettings(phytype="SDRAMPHYModel", memtype=cfg["memtype"], databits=cfg.get("databits", 4),
                        dfi_databits=cfg.get("dfi_databits", 8), nphases=cfg["nphases"], rdphase=0, wrphase=0,
                        cl=2, cwl=None, read_latency=cfg["read_latency"], write_latency=cfg["write_latency"])
        m = _Mod(cfg["bankbits"], cfg["rowbits"], cfg["colbits"], cfg.get("addressbits", 13))
        with capture_locals(BankModel.__init__) as cap:
            self.submodules.phy = SDRAMPHYModel(m, settings=s, we_granularity=cfg.get("we_granularity", 8))
        self.banks = cap.calls["BankModel.__init__"]
        self.settings = s


def jedec_col(addr, colbits):
    """column bits of a DFI address: A0..A9, A11.. (A10 = auto-precharge flag)"""
    if colbits <= 10:
        return z3.Extract(colbits - 1, 0, addr)
    return z3.Concat(z3.Extract(colbits, 11, addr), z3.Extract(9, 0, addr))


def model_contract(cfg):
    h = ModelHarness(cfg)
    phy, s = h.phy, h.settings
    phases = phy.dfi.phases
    nph, rl, wl = s.nphases, s.read_latency, s.write_latency
    bankbits, rowbits, colbits = cfg["bankbits"], cfg["rowbits"], cfg["colbits"]
    nb = 1 << bankbits
    burst = {"SDR": 1}.get(cfg["memtype"], 2) * nph
    drop = burst.bit_length() - 1
    free = []
    for ph in phases:
        free += [ph.address, ph.bank, ph.cs_n, ph.ras_n, ph.cas_n, ph.we_n, ph.wrdata, ph.wrdata_mask]
    c = Contract("SDRAMPHYModel", h, free, k=max(rl, wl) + 1, cfg=cfg)
    dw = s.dfi_databits * nph
    nlanes = dw // 8
    WB, WR_, WC = c.rigid("WB", max(bankbits, 1)), c.rigid("WR", rowbits), c.rigid("WC", colbits - drop)
    lane = c.rigid("lane", max((nlanes - 1).bit_length(), 1))
    init = BV(0, 8)                     # no init image: every cell starts at 0 (image layout: init_layout_task)
    c.assume("watched_lane_in_range", lambda f: ULT(zext(lane, 8), BV(nlanes, 8)))

    def cmd(f, ph, ras, cas, we):
        return And(f(ph.cs_n) == 0, f.b(ph.ras_n) != ras, f.b(ph.cas_n) != cas, f.b(ph.we_n) != we)
    act = lambda f, ph: cmd(f, ph, True, False, False)
    pre = lambda f, ph: cmd(f, ph, True, False, True)
    rd = lambda f, ph: cmd(f, ph, False, True, False)
    wr = lambda f, ph: cmd(f, ph, False, True, True)
    a10 = lambda f, ph: bit(f(ph.address), 10)
    bank_is = lambda f, ph, b: f(ph.bank) == BV(b, len(ph.bank))
    G = lambda f, k: f.g[k]

    def count_le1(bits):
        return And(*[Not(And(bits[i], bits[j])) for i in range(len(bits)) for j in range(i + 1, len(bits))])
    c.assume("legal.one_command_of_each_kind_per_cycle", lambda f: And(
        count_le1([act(f, ph) for ph in phases]), count_le1([pre(f, ph) for ph in phases]),
        count_le1([Or(rd(f, ph), wr(f, ph)) for ph in phases])))
    # reference bank state
    for b in range(nb):
        def nxt(f, b=b):
            o, r = G(f, "open%d" % b), G(f, "row%d" % b)
            for ph in phases:
                closes = Or(And(pre(f, ph), Or(a10(f, ph), bank_is(f, ph, b))),
                            And(Or(rd(f, ph), wr(f, ph)), a10(f, ph), bank_is(f, ph, b)))        # auto-precharge
                opens = And(act(f, ph), bank_is(f, ph, b))
                o, r = If_(closes, False, If_(opens, True, o)), If_(And(opens, Not(closes)), z3.Extract(rowbits - 1, 0, f(ph.address)), r)
            return o, r
        c.ghost("open%d" % b, "bool", False, lambda f, nxt=nxt: nxt(f)[0])
        c.ghost("row%d" % b, rowbits, 0, lambda f, nxt=nxt: nxt(f)[1])
    isopen = lambda f, ph: Or(*[And(bank_is(f, ph, b), G(f, "open%d" % b)) for b in range(nb)])
    # in-flight write data: number of cycles a write command (any bank) is still waiting for its data
    wr_any = lambda f: Or(*[wr(f, ph) for ph in phases])
    for k in range(wl):
        c.ghost("wany%d" % k, "bool", False, (lambda f, k=k: wr_any(f) if k == 0 else G(f, "wany%d" % (k - 1))))
    inflight = lambda f: Or(*[G(f, "wany%d" % k) for k in range(wl)]) if wl else z3.BoolVal(False)
    c.assume("legal.activate_only_a_closed_bank_column_commands_only_an_open_bank", lambda f: And(*[And(
        Implies(act(f, ph), Not(isopen(f, ph))), Implies(Or(rd(f, ph), wr(f, ph)), isopen(f, ph))) for ph in phases]))
    c.assume("legal.nothing_races_in_flight_write_data", lambda f: Implies(
        inflight(f), And(*[And(Not(rd(f, ph)), Not(pre(f, ph)), Not(act(f, ph))) for ph in phases])))
    c.assume("legal.precharge_and_activate_not_mixed_on_one_bank_in_a_cycle", lambda f: And(*[
        Implies(And(act(f, p1), pre(f, p2)), And(Not(a10(f, p2)), f(p1.bank) != f(p2.bank))) for p1 in phases for p2 in phases]))
    c.cover("activate_after_auto_precharge", lambda f: Or(*[And(act(f, ph), Or(*[And(bank_is(f, ph, b), f.b(h.banks[b]["active"]))
                                                                                 for b in range(nb)])) for ph in phases]), within=8)
    c.assume("legal.column_command_not_with_precharge_or_activate_of_its_bank", lambda f: And(*[
        Implies(And(Or(rd(f, p1), wr(f, p1)), Or(pre(f, p2), act(f, p2))), And(Not(And(pre(f, p2), a10(f, p2))), f(p1.bank) != f(p2.bank)))
        for p1 in phases for p2 in phases]))
    if not cfg.get("we_granularity", 8):
        c.assume("no_masks_without_byte_write_enables", lambda f: And(*[f(ph.wrdata_mask) == 0 for ph in phases]))

    def hits(f, ph):
        col = jedec_col(f(ph.address), colbits)
        cgrp = z3.Extract(colbits - 1, drop, col)
        row_ok = Or(*[And(WB == b, G(f, "open%d" % b), G(f, "row%d" % b) == WR_) for b in range(nb)])
        return And(eqv(f(ph.bank), WB), cgrp == WC, row_ok)
    whit = lambda f: Or(*[And(wr(f, ph), hits(f, ph)) for ph in phases])
    rhit = lambda f: Or(*[And(rd(f, ph), hits(f, ph)) for ph in phases])
    rd_any = lambda f: Or(*[rd(f, ph) for ph in phases])
    for k in range(wl):
        c.ghost("whit%d" % k, "bool", False, (lambda f, k=k: whit(f) if k == 0 else G(f, "whit%d" % (k - 1))))
    wnow = (lambda f: G(f, "whit%d" % (wl - 1))) if wl else whit
    cat = lambda f, sigs: z3.Concat(*reversed([f(x) for x in sigs])) if len(sigs) > 1 else f(sigs[0])
    wdata = lambda f: cat(f, [ph.wrdata for ph in phases])
    wmask = lambda f: cat(f, [ph.wrdata_mask for ph in phases])
    mem_next = lambda f: If_(And(wnow(f), bit_at(wmask(f), lane, nlanes) == 0), byte_at(wdata(f), lane, nlanes), G(f, "mem"))
    c.ghost("mem", 8, init, mem_next)
    # read pipeline of the reference: (valid, hit, byte)
    for k in range(rl):
        c.ghost("rv%d" % k, "bool", False, (lambda f, k=k: rd_any(f) if k == 0 else G(f, "rv%d" % (k - 1))))
        c.ghost("rh%d" % k, "bool", False, (lambda f, k=k: rhit(f) if k == 0 else G(f, "rh%d" % (k - 1))))
        c.ghost("rb%d" % k, 8, 0, (lambda f, k=k: G(f, "mem") if k == 0 else G(f, "rb%d" % (k - 1))))
    # ---- obligations
    for b in range(nb):
        L = h.banks[b]
        # (the model does not model auto-precharge: it may still call a bank active that the reference has closed; a legal
        # trace never accesses a closed bank, so only this direction matters)
        c.invariant("bank%d.open_bank_is_active_in_the_model_with_the_same_row" % b, lambda f, L=L, b=b: Implies(
            G(f, "open%d" % b), And(f.b(L["active"]), f(L["row"]) == G(f, "row%d" % b))))

    def model_cell(f):
        out = None
        for b in reversed(range(nb)):
            store = c.frag._mem_replacements[h.banks[b]["mem"]]
            idx = z3.Concat(WR_, WC) if True else None
            word = f(store[-1])
            for i in range(len(store) - 2, -1, -1):
                word = If_(idx == BV(i, idx.size()), f(store[i]), word)
            byte = byte_at(word, lane, nlanes)
            out = byte if out is None else If_(zext(WB, 8) == b, byte, out)
        return out
    # ---- wiring of commands to the banks (no memory reasoning: also decidable for wide-column geometries)
    def sel_phase(f, pred, val):
        out = None
        for ph in reversed(phases):
            out = val(f, ph) if out is None else If_(pred(f, ph), val(f, ph), out)
        return out
    wcol_now = lambda f: sel_phase(f, wr, lambda f, ph: jedec_col(f(ph.address), colbits))
    wbank_now = lambda f: sel_phase(f, wr, lambda f, ph: zext(f(ph.bank), 8))
    for k in range(wl):
        c.ghost("wc%d" % k, colbits, 0, (lambda f, k=k: wcol_now(f) if k == 0 else G(f, "wc%d" % (k - 1))))
        c.ghost("wb%d" % k, 8, 0, (lambda f, k=k: wbank_now(f) if k == 0 else G(f, "wb%d" % (k - 1))))
    w_v = (lambda f: G(f, "wany%d" % (wl - 1))) if wl else wr_any
    w_c = (lambda f: G(f, "wc%d" % (wl - 1))) if wl else wcol_now
    w_b = (lambda f: G(f, "wb%d" % (wl - 1))) if wl else wbank_now
    for b in range(nb):
        bm = h.banks[b]["self"]
        c.invariant("bank%d.write_strobe_and_column_are_the_write_command_delayed_by_write_latency" % b, lambda f, bm=bm, b=b: And(
            f.b(bm.write) == And(w_v(f), w_b(f) == b), Implies(f.b(bm.write), eqv(f(bm.write_col), w_c(f)))))
        c.invariant("bank%d.read_strobe_and_column_are_the_read_command" % b, lambda f, bm=bm, b=b: And(
            f.b(bm.read) == Or(*[And(rd(f, ph), bank_is(f, ph, b)) for ph in phases]),
            Implies(f.b(bm.read), eqv(f(bm.read_col), sel_phase(f, rd, lambda f, ph: jedec_col(f(ph.address), colbits))))))
    if cfg.get("wiring_only"):
        # the wiring obligations do not depend on the memory contents: the (large) memories are havocked, a sound
        # over-approximation that keeps the queries small
        c.havoc = set()
        for b in range(nb):
            c.havoc |= set(c.frag._mem_replacements[h.banks[b]["mem"]])
        c.invariant("read_data_valid_exactly_read_latency_after_a_read", lambda f: And(*[
            f.b(ph.rddata_valid) == G(f, "rv%d" % (rl - 1)) for ph in phases]))
        c.cover("a_write_reaches_a_bank", lambda f: Or(*[f.b(h.banks[b]["self"].write) for b in range(nb)]), within=wl + 6)
        return c
    c.invariant("memory_content_of_every_cell_agrees_with_reference", lambda f: model_cell(f) == G(f, "mem"))
    if rl:
        rdata = lambda f: cat(f, [ph.rddata for ph in phases])
        c.invariant("read_data_valid_exactly_read_latency_after_a_read", lambda f: And(*[
            f.b(ph.rddata_valid) == G(f, "rv%d" % (rl - 1)) for ph in phases]))
        c.invariant("read_data_of_every_cell_is_the_reference_content_at_the_read", lambda f: Implies(
            G(f, "rh%d" % (rl - 1)), byte_at(rdata(f), lane, nlanes) == G(f, "rb%d" % (rl - 1))))
    c.cover("write_then_read_of_the_watched_cell", lambda f: And(G(f, "rh%d" % (rl - 1)), G(f, "rb%d" % (rl - 1)) != init) if rl else True,
            within=rl + wl + 8)
    c.parts = dict(h=h, init=init)
    return c


# ---- init image layout (bounded) -----------------------------------------------------------------------------------------

def ref_bank_words(image_bytes, nbanks, nrows, ncols, databits, data_width, mapping):
    """independent layout: byte address -> (row, bank, column) per mapping; a model word = one burst of one bank"""
    colbytes = databits // 8 if databits >= 8 else None
    out = [dict() for _ in range(nbanks)]
    wbytes = data_width // 8
    cols_per_word = (data_width // databits)
    words_per_row = ncols // cols_per_word
    rowbytes = ncols * databits // 8
    for a, v in enumerate(image_bytes):
        if mapping == "ROW_BANK_COL":
            row, rest = divmod(a, rowbytes * nbanks)
            bank, off = divmod(rest, rowbytes)
        else:
            bank, rest = divmod(a, rowbytes * nrows)
            row, off = divmod(rest, rowbytes)
        if row >= nrows or bank >= nbanks:
            continue
        w, bo = divmod(off, wbytes)
        idx = row * words_per_row + w
        out[bank][idx] = out[bank].get(idx, 0) | (v << (8 * bo))
    return out


def _layout_case(nbanks, nrows, ncols, databits, data_width, mapping, image):
    import struct
    prep = SDRAMPHYModel._SDRAMPHYModel__prepare_bank_init_data

    class _S:
        pass
    fake = _S()
    fake.settings = _S()
    fake.settings.databits = databits
    ib = b"".join(struct.pack("<I", x) for x in image)
    got = prep(fake, list(image), nbanks, nrows, ncols, data_width, mapping)
    exp = ref_bank_words(ib, nbanks, nrows, ncols, databits, data_width, mapping)
    for b in range(nbanks):
        g = got[b] or []
        for idx, val in sorted(exp[b].items()):
            gv = g[idx] if idx < len(g) else 0
            if gv != val:
                return dict(bank=b, index=idx, got=gv, expected=val)
        extra = [i for i, v in enumerate(g) if v and i not in exp[b]]
        if extra:
            return dict(bank=b, index=extra[0], got=g[extra[0]], expected=0)
    return None


def init_layout_task(cfg, tier):
    import json, time
    from vc.runner import replay_path
    rnd = random.Random(7)
    res = []
    geos = [(2, 4, 16, 8, 32), (2, 2, 32, 16, 128), (4, 4, 8, 8, 16), (2, 4, 16, 8, 8), (4, 2, 16, 16, 64), (8, 2, 8, 8, 32)]
    if tier != "quick":
        geos += [(2, 8, 64, 16, 128), (4, 8, 32, 8, 64), (8, 4, 16, 32, 256), (2, 16, 8, 8, 16)]
    for nbanks, nrows, ncols, databits, data_width in geos:
        total = (databits // 8) * nrows * ncols * nbanks
        for mapping in ("ROW_BANK_COL", "BANK_ROW_COL"):
            t0 = time.time()
            oid = "C19/InitImage[nbanks=%d,nrows=%d,ncols=%d,databits=%d,data_width=%d,%s]/bounded/layout_follows_address_mapping" % (
                nbanks, nrows, ncols, databits, data_width, mapping)
            bad = None
            ncase = 0
            for nwords in sorted({total // 4, max(total // 8, 1), max(total // 4 - 3, 1), 5, 1}):
                if nwords * 4 > total:
                    continue
                image = [rnd.getrandbits(32) for _ in range(nwords)]
                ncase += 1
                d = _layout_case(nbanks, nrows, ncols, databits, data_width, mapping, image)
                if d is not None:
                    bad = dict(nbanks=nbanks, nrows=nrows, ncols=ncols, databits=databits, data_width=data_width, mapping=mapping,
                               image=image, first_difference=d)
                    break
            r = {"id": oid, "kind": "bounded", "status": "failed" if bad else "bounded-ok", "seconds": round(time.time() - t0, 3),
                 "backend": "cpython-execution", "cases": ncase}
            if bad:
                path = replay_path("C19", oid)
                json.dump({"property": "C19", "obligation": oid, "module": "contracts.c19", "kind": "pyargs", "args": bad},
                          open(path, "w"), indent=1)
                r.update(replay=path, reproduced=True, witness=bad["first_difference"])
            res.append(r)
    return {"results": res}


def replay(rp):
    a = rp["args"]
    d = _layout_case(a["nbanks"], a["nrows"], a["ncols"], a["databits"], a["data_width"], a["mapping"], a["image"])
    print("replay %s: %s" % (rp["obligation"], ("VIOLATED on current tree: %s" % d) if d else "not violated on current tree"))
    return 1 if d else 0


CFGS = [
    dict(memtype="SDR", nphases=1, read_latency=2, write_latency=0, bankbits=1, rowbits=2, colbits=2),
    dict(memtype="DDR2", nphases=2, read_latency=3, write_latency=1, bankbits=1, rowbits=1, colbits=4),
    dict(memtype="DDR3", nphases=4, read_latency=3, write_latency=2, bankbits=2, rowbits=1, colbits=4),
    dict(memtype="DDR", nphases=2, read_latency=2, write_latency=0, bankbits=1, rowbits=2, colbits=3, we_granularity=0),
]
CFGS_WIDE_COL = [
    dict(memtype="DDR3", nphases=4, read_latency=2, write_latency=1, bankbits=1, rowbits=1, colbits=11, wiring_only=True),
    dict(memtype="DDR2", nphases=2, read_latency=2, write_latency=1, bankbits=1, rowbits=1, colbits=12, addressbits=14, wiring_only=True),
]


def tasks(tier):
    out = []
    for cfg in CFGS + CFGS_WIDE_COL:
        out.append(dict(fn="model_contract", cfg=cfg, modes=["inductive", "cover"] + ([] if cfg.get("wiring_only") else ["difftest"]), weight=10,
                        difftest_cycles=40, search_depth=12))
    out.append(dict(kind="custom", fn="init_layout_task", cfg={}))
    return out
