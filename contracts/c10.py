"""C10 -- Wishbone port: one acknowledge per access and memory semantics.

Real LiteDRAMWishbone2Native (equal width, wider bus through the native down-converter, narrower bus through the
burst up-converter with write-merge buffer and read cache) between a Wishbone MASTER (stb => cyc; address/data/sel/we/cti
stable while the access is pending; the master may abort by dropping cyc at any cycle; classic and incrementing-burst
cti) and the NativePortSpec memory ENVIRONMENT.  Watched byte (symbolic bus address, lane, initial content):
  * ack only during a pending access (hence at most one per access);
  * an acknowledged read carries the byte written by the last acknowledged write to it (merged / cached data is never
    stale); an acknowledged write updates exactly the selected byte;
  * an aborted access does not disturb later accesses (an aborted WRITE to the watched byte leaves it undetermined until
    it is written again -- the write may or may not have reached memory).
End-to-end clauses by BOUNDED unrolling from reset (labelled bounded).  Reverse bridge LiteDRAMNative2Wishbone: inductive.
"""
import z3
from .common import *
from vc.engine import Contract
from vc.shims import capture_locals
from litex.soc.interconnect import wishbone as wb
from litedram.frontend.wishbone import LiteDRAMWishbone2Native, LiteDRAMNative2Wishbone
from .nativeport import add_memory_env, byte_at, bit_at, bv1
from .c10_merge import wb_merge_contract                    # noqa: F401  (task function, looked up by name)

PROPERTY = "C10"
LEVEL = "other"
FUNCTIONS = ["litedram.frontend.wishbone:LiteDRAMWishbone2Native.__init__",
             "litedram.frontend.wishbone:LiteDRAMWishbone2Native._init_burst_upconverter",
             "litedram.frontend.wishbone:LiteDRAMNative2Wishbone.__init__",
             "litedram.frontend.adapter:LiteDRAMNativePortDownConverter.__init__"]
ASSUMPTIONS = [
    "end-to-end clauses: bounded unrolling from reset to the stated depth, all bus-master and memory-side inputs symbolic "
    "(never counted as proved); memory environment = NativePortSpec with at most Q outstanding commands",
    "Wishbone master: stb => cyc; payload stable while an access is pending; abort = cyc dropped; registered-feedback "
    "cti is free (classic 0 / incrementing 2 / end 7)",
    "per configuration (bus:port width ratios 1, 2, 1/2; base address)",
    "burst up-converter lemmas (Wishbone2Native.burst_upconverter): proved for every master behaviour (only stb => cyc is "
    "assumed; no payload-stability assumption is needed because the acknowledges are classified by the FSM state they are "
    "given in); that the READ_DATA acknowledge answers the access the master is still presenting relies on the master "
    "holding its payload (premise of the property; exercised by the bounded clauses)",
]
EXPLANATION = ("bounded contract check on the real bridge; inductive contracts for the equal-width bridge FSM, the reverse "
               "bridge and the burst up-converter's merge buffer / read cache (watched byte lane)")


class WBHarness(Module):
    def __init__(self, cfg):
        ww, pw = cfg["wb"], cfg["port"]
        self.wbus = wb.Interface(data_width=ww, adr_width=cfg.get("adr_width", 6), addressing="word")
        aw_ = cfg.get("adr_width", 6)
        paw = aw_ + log2_int(ww // pw) if ww >= pw else aw_ - log2_int(pw // ww)
        self.port = LiteDRAMNativePort("both", paw, pw)
        self.submodules.br = LiteDRAMWishbone2Native(self.wbus, self.port, base_address=cfg.get("base", 0))


def wb_contract(cfg):
    h = WBHarness(cfg)
    w, port = h.wbus, h.port
    ww, pw = cfg["wb"], cfg["port"]
    base = cfg.get("base", 0)
    free = [w.cyc, w.stb, w.we, w.adr, w.sel, w.dat_w, w.cti, w.bte,
            port.cmd.ready, port.wdata.ready, port.rdata.valid, port.rdata.data]
    c = Contract("Wishbone2Native", h, free, cfg=cfg)
    nbw, nbp = ww // 8, pw // 8
    WA = c.rigid("WA", len(w.adr))
    LW = max((nbw - 1).bit_length(), 1)
    lane = c.rigid("lane", LW)
    init = c.rigid("init", 8)
    c.assume("watched_lane_in_range", lambda f: ULT(zext(lane, 8), BV(nbw, 8)))
    aw = len(w.adr)
    off = base >> log2_int(nbw)
    rel = WA - BV(off, aw)
    paw = len(port.cmd.addr)
    LT = max((nbp - 1).bit_length(), 1)
    if ww == pw:
        A = z3.Extract(paw - 1, 0, zext(rel, max(aw, paw)))
        lane_to = zext(lane, LT)
    elif ww > pw:
        r = ww // pw
        lr = log2_int(r)
        sub = z3.Extract(LW - 1, LW - lr, lane)
        A = z3.Extract(paw - 1, 0, zext(z3.Concat(rel, sub), max(aw + lr, paw)))
        lane_to = zext(z3.Extract(LW - lr - 1, 0, lane), LT) if LW > lr else BV(0, LT)
    else:
        r = pw // ww
        lr = log2_int(r)
        A = z3.Extract(paw - 1, 0, zext(z3.LShR(rel, lr), max(aw, paw)))
        chunk = z3.Extract(lr - 1, 0, rel)
        lane_to = zext(chunk, LT) * BV(nbw, LT) + zext(lane, LT)
    add_memory_env(c, port, "mem", A, lane_to, init, Q=cfg.get("Q", 2))
    # ---- wishbone master
    G = lambda f, k: f.g["wbm." + k]
    req = lambda f: And(f.b(w.cyc), f.b(w.stb))
    ack = lambda f: f.b(w.ack)
    c.ghost("wbm.pend", "bool", False, lambda f: And(req(f), Not(ack(f))))
    for nm, sig in (("we", w.we), ("adr", w.adr), ("sel", w.sel), ("dat", w.dat_w), ("cti", w.cti)):
        c.ghost("wbm.p_" + nm, len(sig), 0, lambda f, sig=sig: f(sig))
    c.assume("wbm.stb_implies_cyc", lambda f: Implies(f.b(w.stb), f.b(w.cyc)))
    c.assume("wbm.pending_access_held_or_aborted", lambda f: Implies(G(f, "pend"), Or(
        Not(f.b(w.cyc)),
        And(req(f), f(w.we) == G(f, "p_we"), f(w.adr) == G(f, "p_adr"), f(w.sel) == G(f, "p_sel"),
            f(w.dat_w) == G(f, "p_dat"), f(w.cti) == G(f, "p_cti")))))
    c.assume("wbm.cti_classic_or_burst", lambda f: Or(f(w.cti) == 0, f(w.cti) == 2, f(w.cti) == 7))
    c.assume("wbm.address_inside_window", lambda f: Implies(req(f), UGE(f(w.adr), BV(off, aw))))
    hit = lambda f: f(w.adr) == WA
    sel_b = lambda f: bit_at(f(w.sel), lane, nbw) == 1
    aborted_w = lambda f: And(G(f, "pend"), Not(f.b(w.cyc)), G(f, "p_we") == 1, G(f, "p_adr") == WA,
                              bit_at(G(f, "p_sel"), lane, nbw) == 1)
    acked_w = lambda f: And(req(f), ack(f), f.b(w.we), hit(f), sel_b(f))
    c.ghost("wbm.spec", 8, init, lambda f: If_(acked_w(f), byte_at(f(w.dat_w), lane, nbw), G(f, "spec")))
    c.ghost("wbm.taint", "bool", False, lambda f: If_(acked_w(f), False, If_(aborted_w(f), True, G(f, "taint"))))
    c.bounded("ack_only_during_a_pending_access", lambda f: Implies(ack(f), req(f)))
    c.bounded("acknowledged_read_returns_last_acknowledged_write", lambda f: Implies(
        And(req(f), ack(f), Not(f.b(w.we)), hit(f), Not(G(f, "taint"))),
        byte_at(f(w.dat_r), lane, nbw) == G(f, "spec")))
    # (after an abort the bridge has nothing valid to present; what the memory then takes is judged by the memory clauses)
    c.ghost("wbm.aborted_recently", "bool", False, lambda f: If_(And(G(f, "pend"), Not(f.b(w.cyc))), True, If_(
        And(req(f), ack(f)), False, G(f, "aborted_recently"))))
    c.bounded("write_data_present_when_memory_takes_it", lambda f: Implies(
        And(f.b(port.wdata.ready), Not(G(f, "aborted_recently")), Not(And(G(f, "pend"), Not(f.b(w.cyc))))),
        f.b(port.wdata.valid)))
    c.cover("read_hit_after_write_hit", lambda f: And(req(f), ack(f), Not(f.b(w.we)), hit(f), Not(G(f, "taint")),
                                                       G(f, "spec") != init), within=cfg.get("depth", 16))
    return c


def wb_proof_contract(cfg):
    """equal bus widths (the bridge's own FSM, no converter): by induction, for all master behaviour incl. aborts at any
    cycle and all port timings: one native command per access carrying adr-offset / we; an acknowledged write handed the
    port exactly dat_w / sel of that access; an aborted write completes its data phase with every byte masked and without
    ack; an acknowledged read returns the port's word for the command of that access; ack only for the pending access"""
    from vc.shims import capture_locals
    ww = cfg.get("width", 16)
    base = cfg.get("base", 0)

    class H(Module):
        def __init__(self):
            self.wbus = wb.Interface(data_width=ww, adr_width=cfg.get("adr_width", 6), addressing="word")
            self.port = LiteDRAMNativePort("both", cfg.get("adr_width", 6), ww)
            with capture_locals(LiteDRAMWishbone2Native.__init__) as cap:
                self.submodules.br = LiteDRAMWishbone2Native(self.wbus, self.port, base_address=base)
            self.L = cap.of(self.br)
    h = H()
    w, port, br, L = h.wbus, h.port, h.br, h.L
    fsm, aborted = br.fsm, L["aborted"]
    free = [w.cyc, w.stb, w.we, w.adr, w.sel, w.dat_w, w.cti, w.bte, port.cmd.ready, port.wdata.ready, port.rdata.valid, port.rdata.data]
    c = Contract("Wishbone2Native.logic", h, free, cfg=cfg)
    st = lambda f, *n: state_is(f, fsm, *n)
    req = lambda f: And(f.b(w.cyc), f.b(w.stb))
    ack = lambda f: f.b(w.ack)
    aw, paw = len(w.adr), len(port.cmd.addr)
    off = base >> log2_int(ww // 8)
    # master
    c.ghost("pend", "bool", False, lambda f: And(req(f), Not(ack(f))))
    for nm, sig in (("we", w.we), ("adr", w.adr), ("sel", w.sel), ("dat", w.dat_w)):
        c.ghost("p_" + nm, len(sig), 0, lambda f, sig=sig: f(sig))
    c.assume("wbm.stb_implies_cyc", lambda f: Implies(f.b(w.stb), f.b(w.cyc)))
    c.assume("wbm.pending_access_held_or_aborted", lambda f: Implies(f.g.pend, Or(Not(f.b(w.cyc)), And(
        req(f), f(w.we) == f.g.p_we, f(w.adr) == f.g.p_adr, f(w.sel) == f.g.p_sel, f(w.dat_w) == f.g.p_dat))))
    # native port guarantees
    cacc = lambda f: And(f.b(port.cmd.valid), f.b(port.cmd.ready))
    wtk = lambda f: And(f.b(port.wdata.valid), f.b(port.wdata.ready))
    c.ghost("outst", 4, 0, lambda f: f.g.outst + If_(And(cacc(f), Not(f.b(port.cmd.we))), BV(1, 4), BV(0, 4)) - If_(f.b(port.rdata.valid), BV(1, 4), BV(0, 4)))
    c.ghost("wpend", 4, 0, lambda f: f.g.wpend + If_(And(cacc(f), f.b(port.cmd.we)), BV(1, 4), BV(0, 4)) - If_(wtk(f), BV(1, 4), BV(0, 4)))
    c.assume("port.read_data_only_for_an_outstanding_read", lambda f: Implies(f.b(port.rdata.valid), f.g.outst != 0))
    c.assume("port.write_strobe_only_for_an_accepted_write", lambda f: Implies(f.b(port.wdata.ready), f.g.wpend != 0))
    # the access whose command has been issued
    c.ghost("l_adr", aw, 0, lambda f: If_(cacc(f), f(w.adr), f.g.l_adr))
    c.ghost("l_we", 1, 0, lambda f: If_(cacc(f), f(w.we), f.g.l_we))
    live = lambda f: And(f.b(w.cyc), Not(f.b(aborted)))                 # the master has not given up on that access
    c.invariant("state_in_range", lambda f: state_in_range(f, fsm))
    c.invariant("one_access_in_flight", lambda f: And(
        Implies(st(f, "CMD"), And(f.g.outst == 0, f.g.wpend == 0)),
        Implies(st(f, "WRITE"), And(f.g.outst == 0, f.g.wpend == 1, f.g.l_we == 1)),
        Implies(st(f, "READ"), And(f.g.outst == 1, f.g.wpend == 0, f.g.l_we == 0))))
    c.invariant("unaborted_access_is_still_the_one_whose_command_was_issued", lambda f: Implies(
        And(st(f, "WRITE", "READ"), Not(f.b(aborted))), And(f.g.pend, f.g.p_adr == f.g.l_adr, f.g.p_we == f.g.l_we)))
    c.ensures("one_command_per_access_with_its_address_and_direction", lambda f: And(
        f.b(port.cmd.valid) == And(st(f, "CMD"), req(f)),
        Implies(f.b(port.cmd.valid), And(f(port.cmd.addr) == z3.Extract(paw - 1, 0, zext(f(w.adr), max(aw, paw)) - BV(off, max(aw, paw))),
                                         f.b(port.cmd.we) == f.b(w.we)))))
    c.ensures("ack_only_for_the_pending_access_after_its_data_phase", lambda f: Implies(ack(f), And(
        req(f), f.g.pend, f(w.adr) == f.g.l_adr, f(w.we) == f.g.l_we,
        Or(And(st(f, "WRITE"), wtk(f)), And(st(f, "READ"), f.b(port.rdata.valid))))))
    c.ensures("acknowledged_write_handed_over_its_own_data_and_selects", lambda f: Implies(
        And(ack(f), st(f, "WRITE")), And(f(port.wdata.data) == f(w.dat_w), f(port.wdata.we) == f(w.sel))))
    c.ensures("live_write_data_phase_presents_the_masters_data", lambda f: Implies(
        And(st(f, "WRITE"), live(f), f.b(port.wdata.valid)), And(f(port.wdata.data) == f(w.dat_w), f(port.wdata.we) == f(w.sel), req(f))))
    c.ensures("aborted_write_completes_with_every_byte_masked_and_no_ack", lambda f: Implies(
        And(st(f, "WRITE"), Not(live(f))), And(f.b(port.wdata.valid), f(port.wdata.we) == 0, Not(ack(f)))))
    c.ensures("acknowledged_read_returns_the_port_word", lambda f: Implies(
        And(ack(f), st(f, "READ")), f(w.dat_r) == f(port.rdata.data)))
    c.ensures("aborted_read_is_not_acknowledged", lambda f: Implies(And(st(f, "READ"), Not(live(f))), Not(ack(f))))
    c.ensures("no_write_data_offered_outside_the_data_phase", lambda f: Implies(f.b(port.wdata.valid), st(f, "WRITE")))
    c.cover("write_then_read_acknowledged", lambda f: And(ack(f), st(f, "READ")), within=10)
    c.cover("aborted_write_drained", lambda f: And(st(f, "WRITE"), f.b(aborted), wtk(f)), within=10)
    return c


class RevHarness(Module):
    def __init__(self, cfg):
        self.port = LiteDRAMNativePort("both", 8, 16)
        self.wbus = wb.Interface(data_width=16, adr_width=10, addressing="word")
        with capture_locals(LiteDRAMNative2Wishbone.__init__) as cap:
            self.submodules.br = LiteDRAMNative2Wishbone(self.port, self.wbus, base_address=cfg.get("base", 0))
        self.L = cap.of(self.br)


def reverse_contract(cfg):
    """native -> wishbone: one bus cycle per native command, same address / data / byte enables, data returned unchanged"""
    h = RevHarness(cfg)
    p, w = h.port, h.wbus
    base = cfg.get("base", 0)
    free = [p.cmd.valid, p.cmd.we, p.cmd.addr, p.wdata.valid, p.wdata.data, p.wdata.we, p.rdata.ready, w.ack, w.dat_r]
    c = Contract("Native2Wishbone", h, free, cfg=cfg)
    fsm = h.br.fsm
    acc = lambda f: And(f.b(p.cmd.valid), f.b(p.cmd.ready))
    c.ghost("ga", len(p.cmd.addr), 0, lambda f: If_(acc(f), f(p.cmd.addr), f.g.ga))
    c.ghost("gwe", 1, 0, lambda f: If_(acc(f), f(p.cmd.we), f.g.gwe))
    c.ghost("busy", "bool", False, lambda f: If_(acc(f), True, If_(And(f.b(w.cyc), f.b(w.ack)), False, f.g.busy)))
    adr = h.L["adr"]
    c.invariant("state_tracks_command", lambda f: And(
        state_in_range(f, fsm), state_is(f, fsm, "CMD") == Not(f.g.busy),
        Implies(f.g.busy, f(adr) == zext(f.g.ga, 32) + BV(base // 2, 32)),
        Implies(state_is(f, fsm, "WRITE"), f.g.gwe == 1), Implies(state_is(f, fsm, "READ"), f.g.gwe == 0)))
    c.ensures("command_accepted_only_when_idle", lambda f: Implies(acc(f), Not(f.g.busy)))
    c.ensures("bus_cycle_only_for_the_accepted_command", lambda f: Implies(f.b(w.stb), And(
        f.g.busy, f.b(w.cyc), f(w.we) == f.g.gwe,
        zext(f(w.adr), 32) == z3.Extract(31, 0, zext(f.g.ga, 32) + BV(base // 2, 32)) & BV((1 << len(w.adr)) - 1, 32))))
    c.ensures("write_data_and_enables_forwarded", lambda f: Implies(And(f.b(w.stb), f.b(w.we)), And(
        f(w.dat_w) == f(p.wdata.data), f(w.sel) == f(p.wdata.we), f.b(p.wdata.ready) == f.b(w.ack))))
    c.ensures("read_data_returned_unchanged_once", lambda f: And(
        f.b(p.rdata.valid) == And(state_is(f, fsm, "READ"), f.b(w.ack)),
        Implies(f.b(p.rdata.valid), f(p.rdata.data) == f(w.dat_r))))
    c.cover("a_read_completes", lambda f: f.b(p.rdata.valid), within=6)
    return c


CFGS = [dict(wb=16, port=16), dict(wb=8, port=16), dict(wb=16, port=8), dict(wb=16, port=16, base=0x10)]


def tasks(tier):
    out = []
    d = 12 if tier == "quick" else 18
    for cfg in CFGS[:3] if tier == "quick" else CFGS + [dict(wb=8, port=32), dict(wb=8, port=16, base=0x8)]:
        cfg = dict(cfg, depth=d, adr_width=4)
        out.append(dict(fn="wb_contract", cfg=cfg, modes=["bounded", "cover", "difftest"], depth=d, weight=20,
                        timeout_ms=1500000, difftest_cycles=60))
    for cfg in (dict(width=16), dict(width=32, base=0x40)):
        out.append(dict(fn="wb_proof_contract", cfg=cfg, modes=["inductive", "cover", "difftest"], weight=2, difftest_cycles=80))
    for cfg in (dict(wb=8, port=16), dict(wb=8, port=32), dict(wb=16, port=32), dict(wb=8, port=64), dict(wb=8, port=16, base=0x10)):
        out.append(dict(fn="wb_merge_contract", cfg=cfg, modes=["inductive", "cover", "difftest"], weight=2, difftest_cycles=80))
    for cfg in (dict(), dict(base=0x40)):
        out.append(dict(fn="reverse_contract", cfg=cfg, modes=["inductive", "cover", "difftest"], weight=1))
    return out
