"""C01 -- every read returns the last bytes written to that address (whole core).

Decomposition into module contracts (proved, unbounded) plus a bounded end-to-end check of the composition:
  L1  BankMachine keeps request order: a freely chosen watched request travels through cmd_buffer_lookahead (FIFO lemma)
      and cmd_buffer and is the head request exactly after the requests accepted before it were served, unchanged;
  L2  (C02) one wdata_ready / rdata_valid strobe exactly with the accepted column command of the head request;
  L3  Crossbar routing: grant frozen while the bank is valid or locked; cmd.ready only from the granted bank the address
      selects; per-bank strobes reach exactly the granted master;
  L4  Crossbar latency: master strobes are the bank strobes delayed by write_latency+1 / read_latency+1 (ghost delay lines);
      with at most one bank strobe per cycle (L5) at most one master is strobed and its data / enables are what the
      controller sees; read data is broadcast unchanged;
  L5  Multiplexer datapath: wrdata = interface.wdata, wrdata_mask = ~wdata_we, rdata = Cat(rddata) (+ C02: at most one
      column command per cycle, on the read / write phase with its enable strobe);
  L6/L7  C02 (legal command stream) and C06 (address bijection).
End-to-end (labelled BOUNDED): real crossbar + controller on a reference DRAM at the DFI pins (watched cell, PHY latencies),
master obeying the property's premise, watched byte: every read response carries the last byte written in acceptance order.
"""
import z3
from .common import *
from vc.engine import Contract
from vc.shims import capture_locals
from litedram.common import LiteDRAMInterface
from litedram.core.crossbar import LiteDRAMCrossbar
from litedram.core.controller import LiteDRAMController
from litedram.core.bankmachine import BankMachine
from migen.genlib import fifo as mfifo
from . import c02, c06
from .c02 import bm_contract, ctrl_contract                            # lemma L6/L2 (legal command stream, strobes)
from .c06 import map_contract, inj_contract, bm_addr_contract, align_task   # lemma L7 (address bijection)
from .fifo_lemma import fifo_parts, add_fifo_invariants, add_watched_item, inner_sync_fifo, pop_event
from .nativeport import add_master, byte_at, bit_at

PROPERTY = "C01"
LEVEL = "other"
FUNCTIONS = ["litedram.core.crossbar:LiteDRAMCrossbar.do_finalize", "litedram.core.crossbar:LiteDRAMCrossbar.get_port",
             "litedram.core.bankmachine:BankMachine.__init__", "litedram.core.multiplexer:Multiplexer.__init__",
             "litedram.core.controller:LiteDRAMController.__init__", "litex.soc.interconnect.stream:_FIFOWrapper.__init__",
             "migen.genlib.fifo:SyncFIFO.__init__"]
FUNCTIONS = sorted(set(FUNCTIONS + c02.FUNCTIONS + c06.FUNCTIONS))
ASSUMPTIONS = [
    "the composition L1-L7 => NativePortSpec is a paper argument (one address lives in one bank, a bank machine is a FIFO, "
    "data lines up by L4/L5); it is exercised, not proved, by the bounded end-to-end check",
    "end-to-end: bounded unrolling from reset (depth in evidence), refresh disabled inside the window (refresh interplay is "
    "proved in C02/C04), one or two ports, tiny geometry and timings, PHY modelled by its advertised read/write latency on a "
    "reference DRAM with a watched cell",
    "L4 assumes at most one bank strobe of each kind per cycle: guaranteed by the multiplexer (C02 phase-placement "
    "obligations: one column command per cycle)",
    "per configuration",
]
EXPLANATION = "proved module lemmas (induction / combinational) + bounded end-to-end check on the real core"


# ---- L1 ---------------------------------------------------------------------------------------------------------------

class BMOrderHarness(Module):
    def __init__(self, cfg):
        s = mk_settings(**{k: v for k, v in cfg.items() if k not in ("address_align",)})
        align = cfg.get("address_align", 3)
        aw = s.geom.rowbits + s.geom.colbits - align
        with capture_locals(BankMachine.__init__, mfifo.SyncFIFO.__init__) as cap:
            self.submodules.bm = BankMachine(0, aw, align, 1, s)
        self.cap, self.L = cap, cap.of(self.bm)
        self.pick = Signal()
        self._s = Signal()
        self.comb += self._s.eq(self.pick)


def bm_order_contract(cfg):
    h = BMOrderHarness(cfg)
    bm, L = h.bm, h.L
    free = [bm.req.valid, bm.req.we, bm.req.addr, bm.refresh_req, bm.cmd.ready, h.pick]
    c = Contract("BankMachineOrder", h, free, cfg=cfg)
    la, buf = L["cmd_buffer_lookahead"], L["cmd_buffer"]
    inner, wrap = inner_sync_fifo(la)
    P = fifo_parts(c, inner, h.cap)
    add_fifo_invariants(c, P, "lookahead")
    wi = add_watched_item(c, P, "w", lambda f: f.b(h.pick))
    g = wi["g"]
    c.ghost("wwe", 1, 0, lambda f: If_(wi["picked_now"](f), f(bm.req.we), f.g.wwe))
    c.ghost("waddr", len(bm.req.addr), 0, lambda f: If_(wi["picked_now"](f), f(bm.req.addr), f.g.waddr))
    c.ensures("request_accepted_iff_pushed", lambda f: And(f.b(bm.req.valid), f.b(bm.req.ready)) == And(
        f.b(inner.we), f.b(inner.writable)))
    if wrap is None:
        # payload layout of the LiteX FIFO word: payload (we, addr) then param / first / last
        c.invariant("watched_payload_is_the_request", lambda f: Implies(g(f, "st") == 1, And(
            z3.Extract(0, 0, g(f, "val")) == f.g.wwe,
            z3.Extract(len(bm.req.addr), 1, g(f, "val")) == f.g.waddr)))
        # after leaving the FIFO it sits in cmd_buffer until served
        served = lambda f: And(f.b(buf.source.valid), f.b(buf.source.ready))
        moved = lambda f: wi["delivered_now"](f)
        c.ghost("inbuf", "bool", False, lambda f: If_(moved(f), True, If_(And(f.g.inbuf, served(f)), False, f.g.inbuf)))
        c.invariant("watched_request_is_the_head_request_unchanged", lambda f: Implies(f.g.inbuf, And(
            g(f, "st") == 2, f.b(buf.source.valid), f(buf.source.we) == f.g.wwe, f(buf.source.addr) == f.g.waddr)))
        c.ensures("fifo_pops_only_into_a_free_buffer", lambda f: Implies(pop_event(f, P), Or(
            Not(f.b(buf.source.valid)), f.b(buf.source.ready))))
        c.ensures("lock_held_while_requests_pending", lambda f: f.b(bm.req.lock) == Or(
            f.b(la.source.valid), f.b(buf.source.valid)))
    c.cover("watched_request_served", lambda f: And(g(f, "st") == 2, Not(f.g.inbuf)) if wrap is None else g(f, "st") == 2,
            within=40)
    return c


# ---- L3 / L4 ------------------------------------------------------------------------------------------------------------

class XbarHarness(Module):
    def __init__(self, cfg):
        s = mk_settings(bankbits=cfg.get("bankbits", 1), rowbits=11, colbits=10, nranks=1, nphases=cfg.get("nphases", 2),
                        read_latency=cfg.get("read_latency", 3), write_latency=cfg.get("write_latency", 1),
                        dfi_databits=8, databits=4)
        self.settings = s
        self.itf = itf = LiteDRAMInterface(cfg.get("address_align", 2), s)
        self.submodules.xbar = xbar = LiteDRAMCrossbar(itf)
        self.ports = [xbar.get_port() for _ in range(cfg.get("nports", 2))]
        with capture_locals(LiteDRAMCrossbar.do_finalize) as cap:
            xbar.finalize()
        self.L = cap.of(xbar)


def xbar_contract(cfg):
    h = XbarHarness(cfg)
    itf, ports, L, xbar = h.itf, h.ports, h.L, h.xbar
    nb, nm = itf.nbanks, len(ports)
    banks = [getattr(itf, "bank%d" % i) for i in range(nb)]
    free = [itf.rdata]
    for b in banks:
        free += [b.ready, b.lock, b.wdata_ready, b.rdata_valid]
    for p in ports:
        free += [p.cmd.valid, p.cmd.we, p.cmd.addr, p.wdata.valid, p.wdata.data, p.wdata.we, p.rdata.ready]
    wl, rl = xbar.write_latency, xbar.read_latency
    # k-induction over the longest delay line: after max(wl, rl) steps every delay stage (the design's and the ghost's)
    # is a function of the window's inputs, so no invariant has to name the design's internal delay registers
    c = Contract("Crossbar", h, free, k=max(wl, rl, 1), cfg=cfg)
    arbs = L["arbiters"]
    m_ba = L["m_ba"]
    # environment (multiplexer): at most one bank strobes per kind per cycle
    one_hot = lambda bits: And(*[Not(And(bits[i], bits[j])) for i in range(len(bits)) for j in range(i + 1, len(bits))])
    c.assume("mux.at_most_one_write_strobe", lambda f: one_hot([f.b(b.wdata_ready) for b in banks]))
    c.assume("mux.at_most_one_read_strobe", lambda f: one_hot([f.b(b.rdata_valid) for b in banks]))
    for i, (b, a) in enumerate(zip(banks, arbs)):
        c.ensures("bank%d.grant_frozen_while_valid_or_locked" % i, lambda f, b=b, a=a: Implies(
            Or(f.b(b.valid), f.b(b.lock)), f.nx(a.grant) == f(a.grant)))
        c.ensures("bank%d.request_is_the_granted_masters" % i, lambda f, b=b, a=a, i=i: And(*[Implies(
            f(a.grant) == m, And(
                Implies(f.b(b.valid), And(f.b(ports[m].cmd.valid), f.e(m_ba[m]) == i)),
                f(b.we) == f(ports[m].cmd.we), f(b.addr) == zext(f.e(L["m_rca"][m]), len(b.addr)))) for m in range(nm)]))
    for m, p in enumerate(ports):
        c.ensures("master%d.ready_only_from_the_granted_bank_it_addresses" % m, lambda f, m=m, p=p: f.b(p.cmd.ready) == Or(*[
            And(f(arbs[i].grant) == m, f.e(m_ba[m]) == i, f.b(banks[i].ready),
                Not(Or(*[And(f.b(banks[j].lock), f(arbs[j].grant) == m) for j in range(nb) if j != i])))
            for i in range(nb)]))
        # L4: ghost delay lines of the routed strobes
        wsrc = lambda f, m=m: Or(*[And(f(arbs[i].grant) == m, f.b(banks[i].wdata_ready)) for i in range(nb)])
        rsrc = lambda f, m=m: Or(*[And(f(arbs[i].grant) == m, f.b(banks[i].rdata_valid)) for i in range(nb)])
        for k in range(wl):
            c.ghost("m%d_wd%d" % (m, k), "bool", False, (lambda f, m=m, k=k, wsrc=wsrc: wsrc(f) if k == 0 else f.g["m%d_wd%d" % (m, k - 1)]))
        for k in range(rl):
            c.ghost("m%d_rd%d" % (m, k), "bool", False, (lambda f, m=m, k=k, rsrc=rsrc: rsrc(f) if k == 0 else f.g["m%d_rd%d" % (m, k - 1)]))
        c.invariant("master%d.write_strobe_is_bank_strobe_delayed_by_write_latency_plus_1" % m,
                  lambda f, m=m, p=p: f.b(p.wdata.ready) == f.g["m%d_wd%d" % (m, wl - 1)])
        c.invariant("master%d.read_valid_is_bank_strobe_delayed_by_read_latency_plus_1" % m,
                  lambda f, m=m, p=p: f.b(p.rdata.valid) == f.g["m%d_rd%d" % (m, rl - 1)])
        c.ensures("master%d.read_data_broadcast_unchanged" % m, lambda f, p=p: f(p.rdata.data) == f(itf.rdata))
        c.ensures("master%d.its_write_data_reaches_the_controller_when_strobed" % m, lambda f, p=p: Implies(
            f.b(p.wdata.ready), And(f(itf.wdata) == f(p.wdata.data), f(itf.wdata_we) == f(p.wdata.we))))
    c.invariant("at_most_one_master_write_strobe_in_flight_per_stage", lambda f: And(*[
        one_hot([f.g["m%d_wd%d" % (m, k)] for m in range(nm)]) for k in range(wl)]))
    c.cover("two_masters_served_in_the_same_cycle", lambda f: And(f.b(ports[0].wdata.ready), f.b(ports[1].rdata.valid)),
            within=max(wl, rl) + 3)
    c.ensures("no_write_strobe_means_nothing_written", lambda f: Implies(
        Not(Or(*[f.b(p.wdata.ready) for p in ports])), f(itf.wdata_we) == 0))
    return c


# ---- L5 ---------------------------------------------------------------------------------------------------------------

def mux_datapath_contract(cfg):
    h = c02.CtrlHarness(cfg)
    ctrl = h.ctrl
    c = Contract("MultiplexerDatapath", h, c02.ctrl_free_inputs(ctrl), cfg=cfg)
    itf, phases = ctrl.interface, ctrl.dfi.phases
    cat = lambda f, sigs: z3.Concat(*reversed([f(s_) for s_ in sigs])) if len(sigs) > 1 else f(sigs[0])
    c.ensures("write_data_is_the_interface_data_same_cycle", lambda f: cat(f, [p.wrdata for p in phases]) == f(itf.wdata))
    c.ensures("write_mask_is_the_inverted_byte_enables", lambda f: cat(f, [p.wrdata_mask for p in phases]) == ~f(itf.wdata_we))
    c.ensures("read_data_is_all_phases_concatenated", lambda f: f(itf.rdata) == cat(f, [p.rddata for p in phases]))
    return c


# ---- end-to-end (bounded) -----------------------------------------------------------------------------------------------

class CoreHarness(Module):
    def __init__(self, cfg):
        kw = dict(bankbits=1, rowbits=11, colbits=10, nphases=1, memtype="SDR", cl=2, cwl=None, read_latency=2, write_latency=0,
                  rdphase=0, wrphase=0, databits=4, dfi_databits=16, tRP=1, tRCD=1, tWR=1, tWTR=1, tCCD=1, tRRD=None, tRC=None,
                  tRAS=None, tFAW=None, tRFC=3, cmd_buffer_depth=cfg.get("cmd_buffer_depth", 2), with_refresh=False,
                  with_auto_precharge=cfg.get("with_auto_precharge", True), read_time=4, write_time=4)
        kw.update(cfg.get("settings", {}))
        s = mk_settings(**kw)
        self.settings = s
        self.submodules.ctrl = ctrl = LiteDRAMController(s.phy, s.geom, s.timing, 100e6, s)
        self.submodules.xbar = xbar = LiteDRAMCrossbar(ctrl.interface)
        self.ports = [xbar.get_port() for _ in range(cfg.get("nports", 1))]
        self.port = self.ports[0]
        self.m_byte = Signal(8)
        self.m_en = Signal()
        # the crossbar never reads wdata.valid / rdata.ready / flush: keep them in the fragment so that they are inputs
        self._s = Signal(12)
        self.comb += self._s.eq(Cat(self.m_byte, self.m_en, self.port.wdata.valid, self.port.rdata.ready, self.port.flush))
        self.side = [self]
        for p in self.ports[1:]:
            class _Side:
                pass
            sd = _Side()
            sd.m_byte, sd.m_en, sd._s = Signal(8), Signal(), Signal(12)
            self.comb += sd._s.eq(Cat(sd.m_byte, sd.m_en, p.wdata.valid, p.rdata.ready, p.flush))
            self.side.append(sd)


def core_contract(cfg):
    h = CoreHarness(cfg)
    ctrl, port, s = h.ctrl, h.port, h.settings
    dfi = ctrl.dfi
    free = []
    for p_, sd in zip(h.ports, h.side):
        free += [p_.cmd.valid, p_.cmd.we, p_.cmd.addr, p_.cmd.last, p_.wdata.data, p_.wdata.we, p_.wdata.valid,
                 p_.rdata.ready, p_.flush, sd.m_byte, sd.m_en]
    for ph in dfi.phases:
        free += [ph.rddata, ph.rddata_valid]
    c = Contract("Core", h, free, cfg=cfg)
    nph = s.phy.nphases
    dw = port.data_width
    nb = dw // 8
    UA = c.rigid("UA", len(port.cmd.addr))
    LW = max((nb - 1).bit_length(), 1)
    lane = c.rigid("lane", LW)
    init = c.rigid("init", 8)
    c.assume("watched_lane_in_range", lambda f: ULT(zext(lane, 8), BV(nb, 8)))
    multi = len(h.ports) > 1
    masters = []
    for i, (p_, sd) in enumerate(zip(h.ports, h.side)):
        mm = add_master(c, p_, "usr%d" % i if multi else "usr", UA, lane, init, sd, Qw=2, Qr=2, shared_spec="spec" if multi else None)
        masters.append(mm)
        if cfg.get("single", True):
            c.assume("one_command_at_a_time" + ("_port%d" % i if multi else ""), lambda f, mm=mm, p_=p_: Implies(
                Or(mm["wq"].nonempty(f), mm["rq"].nonempty(f), mm["G"](f, "early")), Not(f.b(p_.cmd.valid))))
    m = masters[0]
    if multi:
        # one memory for all ports: writes take effect in command acceptance order (two ports never have a command to
        # the same address accepted in the same cycle: one bank machine accepts one request per cycle)
        def spec_next(f):
            v = f.g["spec"]
            for mm, sd in zip(masters, h.side):
                v = If_(mm["spec_write"](f), f(sd.m_byte), v)
            return v
        c.ghost("spec", 8, init, spec_next)
    # ---- reference DRAM at the DFI pins: watched cell = the (bank,row,col) the watched port address maps to (C06)
    align = ctrl.interface.address_align
    colw = s.geom.colbits - align
    bankbits = s.geom.bankbits
    col_w = z3.Extract(colw - 1, 0, UA)
    bank_w = z3.Extract(colw + bankbits - 1, colw, UA)
    row_w = z3.Extract(len(port.cmd.addr) - 1, colw + bankbits, UA)
    dcol = z3.Concat(col_w, BV(0, align)) if align else col_w           # DRAM column address (colbits <= 10 here)
    G = lambda f, k: f.g["dram." + k]
    rl_, wl_ = s.phy.read_latency, s.phy.write_latency
    dec = [c02.DfiDecode(ph, 1, bankbits) for ph in dfi.phases]
    # open row per bank (reference)
    for bnk in range(1 << bankbits):
        def upd(f, bnk=bnk):
            o, r = G(f, "open%d" % bnk), G(f, "row%d" % bnk)
            for d in dec:
                sel = d.sel(f, 0)
                tgt = And(sel, d.bank_is(f, bnk))
                closes = Or(And(sel, d.pre(f), Or(d.a10(f), d.bank_is(f, bnk))), And(tgt, Or(d.rd(f), d.wr(f)), d.a10(f)))
                o, r = (If_(And(tgt, d.act(f)), True, If_(closes, False, o)),
                        If_(And(tgt, d.act(f)), z3.Extract(s.geom.rowbits - 1, 0, f(d.ph.address)), r))
            return o, r
        c.ghost("dram.open%d" % bnk, "bool", False, lambda f, upd=upd: upd(f)[0])
        c.ghost("dram.row%d" % bnk, s.geom.rowbits, 0, lambda f, upd=upd: upd(f)[1])

    def col_cmd_hits(f, d, want_wr):
        """a RD/WR on these pins addresses the watched cell (its bank's open row is the watched row)"""
        k = d.wr(f) if want_wr else d.rd(f)
        col_ok = z3.Extract(s.geom.colbits - 1, 0, f(d.ph.address)) == zext(dcol, s.geom.colbits)
        bank_ok = f(d.ph.bank) == bank_w
        row_ok = Or(*[And(bank_w == bnk, G(f, "open%d" % bnk), G(f, "row%d" % bnk) == row_w) for bnk in range(1 << bankbits)])
        return And(d.sel(f, 0), k, col_ok, bank_ok, row_ok)
    anyhit = lambda f, w_: Or(*[col_cmd_hits(f, d, w_) for d in dec])
    anycmd = lambda f, w_: Or(*[And(d.sel(f, 0), d.wr(f) if w_ else d.rd(f)) for d in dec])
    # pipelines: write data is taken write_latency cycles after the WR command, read data returns read_latency after RD
    for k in range(wl_ + 1):
        c.ghost("dram.wp%d" % k, 2, 0, (lambda f, k=k: If_(anyhit(f, True), BV(3, 2), If_(anycmd(f, True), BV(1, 2), BV(0, 2)))
                                        if k == 0 else G(f, "wp%d" % (k - 1))))
    for k in range(rl_ + 1):
        c.ghost("dram.rp%d" % k, 2, 0, (lambda f, k=k: If_(anyhit(f, False), BV(3, 2), If_(anycmd(f, False), BV(1, 2), BV(0, 2)))
                                        if k == 0 else G(f, "rp%d" % (k - 1))))
    allw = lambda f: z3.Concat(*reversed([f(ph.wrdata) for ph in dfi.phases])) if nph > 1 else f(dfi.phases[0].wrdata)
    allm = lambda f: z3.Concat(*reversed([f(ph.wrdata_mask) for ph in dfi.phases])) if nph > 1 else f(dfi.phases[0].wrdata_mask)
    allr = lambda f: z3.Concat(*reversed([f(ph.rddata) for ph in dfi.phases])) if nph > 1 else f(dfi.phases[0].rddata)
    # the command registered on the pins this cycle is wp0 NEXT cycle; data phase = wl_ cycles after the pins
    wnow = (lambda f: If_(anyhit(f, True), BV(3, 2), If_(anycmd(f, True), BV(1, 2), BV(0, 2)))) if wl_ == 0 else (lambda f: G(f, "wp%d" % (wl_ - 1)))
    rnow = (lambda f: G(f, "rp%d" % (rl_ - 1))) if rl_ > 0 else (lambda f: BV(0, 2))
    c.ghost("dram.mem", 8, init, lambda f: If_(
        And(wnow(f) == 3, bit_at(allm(f), lane, nb) == 0), byte_at(allw(f), lane, nb), G(f, "mem")))
    c.assume("phy.read_data_after_read_latency", lambda f: And(
        *[f.b(ph.rddata_valid) == (rnow(f) != 0) for ph in dfi.phases],
        Implies(rnow(f) == 3, byte_at(allr(f), lane, nb) == G(f, "mem"))))
    for i, mm in enumerate(masters):
        for nm_, fn in mm["read_clauses"].items():
            c.bounded(nm_ + ("_port%d" % i if multi else ""), fn)
    for i, p_ in enumerate(h.ports):
        c.bounded("write_strobe_only_for_a_pending_write" + ("_port%d" % i if multi else ""), lambda f, p_=p_: Implies(
            f.b(p_.wdata.ready), f.b(p_.wdata.valid)))
    if multi and cfg.get("single", True):
        m1 = masters[1]
        c.cover("port1_reads_what_port0_wrote", lambda f: And(f.b(h.ports[1].rdata.valid), m1["rq"].nonempty(f), m1["rq"].head(f, "hit") == 1,
                                                              m1["rq"].head(f, "exp") != init), within=cfg.get("depth", 24))
    hitrd = lambda f: And(f.b(port.rdata.valid), m["rq"].nonempty(f), m["rq"].head(f, "hit") == 1)
    if cfg.get("single", True) and not multi:
        c.cover("watched_read_after_watched_write", lambda f: And(hitrd(f), m["rq"].head(f, "exp") != init), within=cfg.get("depth", 24))
    elif not cfg.get("single", True):
        c.cover("watched_read_returned", hitrd, within=cfg.get("depth", 24))
        c.cover("two_writes_in_flight", lambda f: m["wq"].cnt(f) == 2, within=cfg.get("depth", 24))
        c.cover("two_reads_in_flight", lambda f: m["rq"].cnt(f) == 2, within=cfg.get("depth", 24))
    return c


def tasks(tier):
    out = []
    bmc = [dict(rowbits=12, colbits=10, cmd_buffer_depth=4, with_auto_precharge=True),
           dict(rowbits=13, colbits=11, cmd_buffer_depth=8, with_auto_precharge=False),
           dict(rowbits=12, colbits=10, cmd_buffer_depth=16, with_auto_precharge=True)]
    for cfg in bmc[:2] if tier == "quick" else bmc:
        out.append(dict(fn="bm_order_contract", cfg=cfg, modes=["inductive", "cover", "difftest"], weight=4))
    xc = [dict(nports=2, bankbits=1), dict(nports=3, bankbits=2, read_latency=4, write_latency=2)]
    for cfg in xc:
        out.append(dict(fn="xbar_contract", cfg=cfg, modes=["inductive", "cover", "difftest"], weight=4))
    for cfg in (c02.CTRL_CONFIGS_QUICK[:3] if tier == "quick" else c02.CTRL_CONFIGS_THOROUGH):
        out.append(dict(fn="mux_datapath_contract", cfg=cfg, modes=["inductive"], weight=2))
    # lemmas L2/L6 (C02) and L7 (C06) are part of this property's argument: their obligations are discharged here too
    out += [dict(t) for t in c02.tasks(tier)] + [dict(t) for t in c06.tasks(tier)]
    ddr2 = dict(nphases=2, memtype="DDR2", cl=3, cwl=2, read_latency=3, write_latency=1, rdphase=0, wrphase=1, dfi_databits=8)
    # (cfg, depth): `single` = one command in flight at a time (deep), otherwise up to 2 writes + 2 reads in flight
    runs = [(dict(single=True), 16), (dict(single=False), 13), (dict(single=True, nports=2), 17)] if tier == "quick" else [
        (dict(single=True, nports=2), 20), (dict(single=False, nports=2), 13),
        (dict(single=True), 26), (dict(single=False), 18), (dict(single=True, with_auto_precharge=False, settings=ddr2), 22),
        (dict(single=False, with_auto_precharge=False, settings=ddr2), 15)]
    for cfg, d in runs:
        out.append(dict(fn="core_contract", cfg=dict(cfg, depth=d), modes=["bounded", "cover", "difftest"], depth=d, weight=40,
                        timeout_ms=3000000, oneshot=True, difftest_cycles=60))
    return out
