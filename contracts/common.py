"""Shared builders for contract files: controller settings, capture of constructor locals, small z3 helpers."""
import z3
from vc import shims
shims.install()

from migen import *                                        # noqa
from migen.genlib.fsm import FSM, NextState, AnonymousState
from litedram.common import PhySettings, GeomSettings, TimingSettings, LiteDRAMNativePort
from litedram.core.controller import ControllerSettings

BV = z3.BitVecVal
And, Or, Not, Implies, If_ = z3.And, z3.Or, z3.Not, z3.Implies, z3.If
ULT, ULE, UGT, UGE = z3.ULT, z3.ULE, z3.UGT, z3.UGE


def bit(bv, i):
    return z3.Extract(i, i, bv) == 1


def zext(bv, n):
    return z3.ZeroExt(n - bv.size(), bv) if bv.size() < n else bv


def eqv(a, b):
    """equality of two bit-vectors as unsigned integers (width tolerant: a width mismatch must fail an obligation,
    not crash the checker)"""
    n = max(a.size(), b.size())
    return zext(a, n) == zext(b, n)


def mk_settings(memtype="DDR3", nphases=4, rdphase=0, wrphase=1, cl=6, cwl=5, read_latency=5, write_latency=1,
                bankbits=1, rowbits=11, colbits=10, nranks=1, databits=8, dfi_databits=16,
                tRP=2, tRCD=2, tWR=2, tWTR=2, tREFI=100, tRFC=8, tFAW=None, tCCD=1, tRRD=None, tRC=6, tRAS=4,
                tZQCS=None, **ctrl):
    s = ControllerSettings(**ctrl)
    s.phy = PhySettings(phytype="verif", memtype=memtype, databits=databits, dfi_databits=dfi_databits,
                        nphases=nphases, rdphase=rdphase, wrphase=wrphase, cl=cl, cwl=cwl,
                        read_latency=read_latency, write_latency=write_latency, nranks=nranks)
    s.geom = GeomSettings(bankbits=bankbits, rowbits=rowbits, colbits=colbits)
    s.timing = TimingSettings(tRP=tRP, tRCD=tRCD, tWR=tWR, tWTR=tWTR, tREFI=tREFI, tRFC=tRFC, tFAW=tFAW, tCCD=tCCD,
                              tRRD=tRRD, tRC=tRC, tRAS=tRAS, tZQCS=tZQCS)
    return s


def fsm_chain(fsm, start, target):
    """anonymous states of a delayed_enter chain start -> ... -> target (start excluded)"""
    res = []
    cur = start
    while True:
        acts = fsm.actions[cur]
        ns = [x for x in _walk(acts) if isinstance(x, NextState)]
        if not ns:
            break
        nx = ns[0].state
        if nx == target:
            break
        res.append(nx)
        cur = nx
    return res


def _walk(stmts):
    for s in stmts:
        if isinstance(s, (list, tuple)):
            yield from _walk(s)
        else:
            yield s


def state_is(f, fsm, *names):
    sv = f(fsm.state)
    return Or(*[sv == BV(fsm.encoding[n], sv.size()) for n in names])


def state_in_range(f, fsm):
    sv = f(fsm.state)
    n = len(fsm.encoding)
    if n >= (1 << sv.size()):
        return z3.BoolVal(True)
    return ULT(sv, BV(n, sv.size()))


def cfg_str(cfg):
    return ",".join("%s=%s" % (k, cfg[k]) for k in sorted(cfg))
