"""NativePortSpec -- the contract of a LiteDRAM native port as a memory, written as ghost state, used as

  * the ENVIRONMENT behind a port (`add_memory_env`): accepts commands whenever it likes (bounded queue of Q outstanding
    commands), serves write-data strobes in command order among writes and read returns in command order among reads,
    never lets a read of the watched location overtake an earlier write to it (or vice versa), returns for the watched
    byte the value last written to it; all other timing / data is unconstrained.  This is what C01 states for the core.
  * the MASTER in front of a port (`add_master`): holds a command until accepted, has the data of a write available no
    later than the command (a queue of pending beats, head offered and held until taken), always accepts read data; it
    keeps the *specification memory* for a watched byte (updated in command acceptance order) and the queue of expected
    read values; postconditions: one response per read, in order, carrying the expected byte.

Data independence: one watched location (symbolic rigid address and byte lane, symbolic initial content) stands for
every location."""
import z3
from .common import *


def _slots(c, pfx, n, fields):
    """ghost queue of n slots with given fields {name: width}; returns accessor"""
    return None


class Queue:
    """bounded ghost FIFO implemented as n slots + count; at most one push and one pop per cycle"""

    def __init__(self, c, name, depth, fields, push, push_vals, pop):
        self.c, self.name, self.depth, self.fields = c, name, depth, fields
        cw = depth.bit_length() + 1
        self.cw = cw
        g = lambda f, k: f.g["%s.%s" % (name, k)]
        self.g = g
        cnt = lambda f: g(f, "n")
        self.cnt = cnt

        def after_pop_cnt(f):
            return If_(pop(f), cnt(f) - 1, cnt(f))
        c.ghost(name + ".n", cw, 0, lambda f: after_pop_cnt(f) + If_(push(f), BV(1, cw), BV(0, cw)))
        for i in range(depth):
            for fld, w in fields.items():
                def nxt(f, i=i, fld=fld, w=w):
                    cur = g(f, "%s%d" % (fld, i))
                    nxt_slot = g(f, "%s%d" % (fld, i + 1)) if i + 1 < depth else cur
                    shifted = If_(pop(f), nxt_slot, cur)
                    pos = after_pop_cnt(f)
                    return If_(And(push(f), pos == i), push_vals(f)[fld], shifted)
                c.ghost("%s.%s%d" % (name, fld, i), w, 0, nxt)
        c.invariant(name + ".count_in_range", lambda f: ULE(cnt(f), BV(depth, cw)))

    def head(self, f, fld):
        return self.g(f, "%s0" % fld)

    def slot(self, f, fld, i):
        return self.g(f, "%s%d" % (fld, i))

    def nonempty(self, f):
        return self.cnt(f) != 0

    def full(self, f):
        return self.cnt(f) == self.depth

    def any_slot(self, f, pred, upto=None):
        """exists occupied slot i (< upto) with pred(i)"""
        n = self.depth if upto is None else upto
        return Or(*[And(ULT(BV(i, self.cw), self.cnt(f)), pred(i)) for i in range(n)]) if n else z3.BoolVal(False)


def bv1(b):
    return If_(b, BV(1, 1), BV(0, 1))


def byte_of(bv, lane):
    return z3.Extract(8 * lane + 7, 8 * lane, bv)


def byte_at(bv, lane_bv, nlanes):
    """byte selected by a symbolic lane index"""
    r = byte_of(bv, nlanes - 1)
    for i in range(nlanes - 2, -1, -1):
        r = If_(lane_bv == i, byte_of(bv, i), r)
    return r


def bit_at(bv, idx_bv, n):
    r = z3.Extract(n - 1, n - 1, bv)
    for i in range(n - 2, -1, -1):
        r = If_(idx_bv == i, z3.Extract(i, i, bv), r)
    return r


def add_memory_env(c, port, name, A, lane, init_byte, Q=3, min_write_delay=2):
    """environment behind `port` (the DUT is the master of this port).  A: watched address term, lane: watched byte lane
    term (both rigid), init_byte: rigid initial content.  Free inputs expected: port.cmd.ready, port.wdata.ready,
    port.rdata.valid, port.rdata.data."""
    return _memory_env(c, name, A, lane, init_byte, Q, min_write_delay,
                       wport=port if port.mode != "read" else None, rport=port if port.mode != "write" else None)


def add_shared_memory_env(c, wport, rport, name, A, lane, init_byte, Q=3, min_write_delay=2):
    """one memory behind a write-only and a read-only port (two crossbar ports of the same core): commands of both ports
    are ordered by acceptance (restriction of this environment: at most one of the two ports is accepted per cycle)"""
    return _memory_env(c, name, A, lane, init_byte, Q, min_write_delay, wport=wport, rport=rport)


def _memory_env(c, name, A, lane, init_byte, Q, min_write_delay, wport, rport, corrupt=None, shared_timing=False):
    """corrupt: optional 8-bit term XOR-ed into the byte returned for the watched cell (fault injection)"""
    same = wport is rport or wport is None or rport is None
    anyp = wport if wport is not None else rport
    nl = len(wport.wdata.we) if wport is not None else len(rport.rdata.data) // 8
    pacc = lambda f, p: And(f.b(p.cmd.valid), f.b(p.cmd.ready))
    if same:
        acc = lambda f: pacc(f, anyp)
        is_we = lambda f: f.b(anyp.cmd.we)
        hit = lambda f: f(anyp.cmd.addr) == A
    else:
        accw = (lambda f: pacc(f, wport)) if wport is not None else (lambda f: z3.BoolVal(False))
        accr = (lambda f: pacc(f, rport)) if rport is not None else (lambda f: z3.BoolVal(False))
        acc = lambda f: Or(accw(f), accr(f))
        is_we = accw
        hit = lambda f: If_(accw(f), f(wport.cmd.addr) == A, f(rport.cmd.addr) == A) if (wport is not None and rport is not None) \
            else f(anyp.cmd.addr) == A
        if wport is not None and rport is not None:
            c.assume(name + ".one_port_accepted_per_cycle", lambda f: Not(And(accw(f), accr(f))))
            c.assume(name + ".ports_carry_their_direction", lambda f: And(
                Implies(f.b(wport.cmd.valid), f.b(wport.cmd.we)), Implies(f.b(rport.cmd.valid), Not(f.b(rport.cmd.we)))))
    wstrobe = (lambda f: f.b(wport.wdata.ready)) if wport is not None else (lambda f: z3.BoolVal(False))
    rret = (lambda f: f.b(rport.rdata.valid)) if rport is not None else (lambda f: z3.BoolVal(False))
    # one queue of outstanding commands, each with: we, hit, served
    # (served entries are retired from the head, one per cycle)
    gq = {}
    cw = Q.bit_length() + 1
    G = lambda f, k: f.g["%s.%s" % (name, k)]
    cnt = lambda f: G(f, "n")

    def oldest(f, want_we):
        """index (one-hot list) of the oldest unserved entry of the given kind"""
        sel = []
        found = z3.BoolVal(False)
        for i in range(Q):
            occ = ULT(BV(i, cw), cnt(f))
            m = And(occ, (G(f, "we%d" % i) == 1) == want_we, G(f, "sv%d" % i) == 0)
            if want_we and min_write_delay > 1:
                # the core's data strobe comes at least min_write_delay cycles after the command was accepted
                m = And(m, UGE(G(f, "age%d" % i), BV(min_write_delay - 1, 2)))
            sel.append(And(m, Not(found)))
            found = Or(found, m)
        return sel, found
    retire = lambda f: And(cnt(f) != 0, G(f, "sv0") == 1)

    def served_now(f, i):
        sw, fw = oldest(f, True)
        sr, fr = oldest(f, False)
        return Or(And(wstrobe(f), sw[i]), And(rret(f), sr[i]))
    c.ghost(name + ".n", cw, 0, lambda f: If_(retire(f), cnt(f) - 1, cnt(f)) + If_(acc(f), BV(1, cw), BV(0, cw)))
    for i in range(Q):
        def mk(fld, i=i):
            def nxt(f):
                cur = G(f, "%s%d" % (fld, i))
                if fld == "sv":
                    cur = If_(served_now(f, i), BV(1, 1), cur)
                nx = G(f, "%s%d" % (fld, i + 1)) if i + 1 < Q else BV(0, 1)
                if fld == "sv" and i + 1 < Q:
                    nx = If_(served_now(f, i + 1), BV(1, 1), nx)
                shifted = If_(retire(f), nx, cur)
                pos = If_(retire(f), cnt(f) - 1, cnt(f))
                newv = {"we": bv1(is_we(f)), "hit": bv1(hit(f)), "sv": BV(0, 1)}[fld]
                return If_(And(acc(f), pos == i), newv, shifted)
            return nxt
        for fld in ("we", "hit", "sv"):
            c.ghost("%s.%s%d" % (name, fld, i), 1, 0, mk(fld))

        def age_nxt(f, i=i):
            inc = lambda a: If_(a == 3, a, a + 1)
            cur = inc(G(f, "age%d" % i))
            nx = inc(G(f, "age%d" % (i + 1))) if i + 1 < Q else BV(0, 2)
            shifted = If_(retire(f), nx, cur)
            pos = If_(retire(f), cnt(f) - 1, cnt(f))
            return If_(And(acc(f), pos == i), BV(0, 2), shifted)
        c.ghost("%s.age%d" % (name, i), 2, 0, age_nxt)
    c.invariant(name + ".queue_range", lambda f: ULE(cnt(f), BV(Q, cw)))
    # memory content of the watched byte
    if wport is not None:
        def mem_next(f):
            sw, fw = oldest(f, True)
            whit = Or(*[And(sw[i], G(f, "hit%d" % i) == 1) for i in range(Q)])
            en = bit_at(f(wport.wdata.we), lane, nl) == 1
            return If_(And(wstrobe(f), whit, en), byte_at(f(wport.wdata.data), lane, nl), G(f, "mem"))
        c.ghost(name + ".mem", 8, init_byte, mem_next)
    else:
        c.ghost(name + ".mem", 8, init_byte, lambda f: G(f, "mem"))
    c.assume(name + ".initial_content", lambda f: z3.BoolVal(True))
    # ---- environment behaviour (constraints on the free inputs)
    c.assume(name + ".accepts_only_with_queue_space", lambda f: Implies(
        Or(*[f.b(p.cmd.ready) for p in ([anyp] if same else [p_ for p_ in (wport, rport) if p_ is not None])]),
        ULT(If_(retire(f), cnt(f) - 1, cnt(f)), BV(Q, cw))))

    def conflict_free(f, sel, want_we):
        """the served entry, if it hits the watched address, has no older unserved entry of the other kind that hits"""
        cl = []
        for i in range(Q):
            older = [And(G(f, "hit%d" % j) == 1, (G(f, "we%d" % j) == 1) != want_we, G(f, "sv%d" % j) == 0) for j in range(i)]
            cl.append(Implies(And(sel[i], G(f, "hit%d" % i) == 1), Not(Or(*older)) if older else True))
        return And(*cl)
    if wport is not None:
        c.assume(name + ".write_strobe_serves_oldest_pending_write", lambda f: Implies(
            wstrobe(f), And(oldest(f, True)[1], conflict_free(f, oldest(f, True)[0], True))))
    if rport is not None:
        def rd_ok(f):
            sr, fr = oldest(f, False)
            rhit = Or(*[And(sr[i], G(f, "hit%d" % i) == 1) for i in range(Q)])
            return Implies(rret(f), And(fr, conflict_free(f, sr, False),
                                        Implies(rhit, byte_at(f(rport.rdata.data), lane, len(rport.rdata.data) // 8) ==
                                                (G(f, "mem") if corrupt is None else G(f, "mem") ^ corrupt))))
        c.assume(name + ".read_return_serves_oldest_pending_read_with_memory_content", rd_ok)
    return dict(G=G, cnt=cnt, acc=acc, hit=hit)


def add_master(c, port, name, UA, lane, init_byte, h, Qw=3, Qr=3, with_last=True, shared_spec=None):
    """master in front of `port` (the DUT is the slave).  h must provide free harness signals: h.m_byte (8), h.m_en (1):
    the byte / enable this master intends for lane `lane` of the command it is currently offering.
    Free inputs expected: port.cmd.valid/we/addr/last, port.wdata.data/we (valid is constrained), port.flush."""
    nl = len(port.wdata.we) if port.mode != "read" else len(port.rdata.data) // 8
    acc = lambda f: And(f.b(port.cmd.valid), f.b(port.cmd.ready))
    is_w = lambda f: f.b(port.cmd.we)
    hit = lambda f: f(port.cmd.addr) == UA
    G = lambda f, k: f.g["%s.%s" % (name, k)]
    # M3: command held until accepted
    c.ghost(name + ".pv", "bool", False, lambda f: And(f.b(port.cmd.valid), Not(f.b(port.cmd.ready))))
    c.ghost(name + ".pwe", 1, 0, lambda f: f(port.cmd.we))
    c.ghost(name + ".paddr", len(port.cmd.addr), 0, lambda f: f(port.cmd.addr))
    c.ghost(name + ".plast", 1, 0, lambda f: f(port.cmd.last))
    c.ghost(name + ".pbyte", 8, 0, lambda f: f(h.m_byte))
    c.ghost(name + ".pen", 1, 0, lambda f: f(h.m_en))
    c.assume(name + ".command_held_until_accepted", lambda f: Implies(G(f, "pv"), And(
        f.b(port.cmd.valid), f(port.cmd.we) == G(f, "pwe"), f(port.cmd.addr) == G(f, "paddr"),
        f(port.cmd.last) == G(f, "plast"), f(h.m_byte) == G(f, "pbyte"), f(h.m_en) == G(f, "pen"))))
    out = dict(acc=acc, hit=hit, G=G)
    if port.mode != "read":
        wtaken = lambda f: And(f.b(port.wdata.valid), f.b(port.wdata.ready))
        # Beats are available in command order.  Queue = beats of ACCEPTED write commands not yet taken; when it is empty
        # the beat of the command currently being offered is presented; it may be taken before (or in the same cycle as)
        # its command is accepted: then `early` is set and nothing more is offered until the command has been accepted.
        wq_ref = {}
        qempty = lambda f: Not(wq_ref["q"].nonempty(f))
        pending_offer = lambda f: And(f.b(port.cmd.valid), is_w(f))
        early_take = lambda f: And(qempty(f), wtaken(f))                 # the offered command's own beat is taken now
        wq = Queue(c, name + ".wq", Qw, {"hit": 1, "byte": 8, "en": 1},
                   push=lambda f: And(acc(f), is_w(f), Not(G(f, "early")), Not(early_take(f))),
                   push_vals=lambda f: {"hit": bv1(hit(f)), "byte": f(h.m_byte), "en": f(h.m_en)},
                   pop=lambda f: And(wtaken(f), wq_ref["q"].nonempty(f)))
        wq_ref["q"] = wq
        c.ghost(name + ".early", "bool", False, lambda f: If_(
            And(acc(f), is_w(f)), False, If_(early_take(f), True, G(f, "early"))))
        c.assume(name + ".bounded_write_run_ahead", lambda f: Implies(wq.full(f), Not(pending_offer(f))))
        c.assume(name + ".write_data_available_no_later_than_command_and_held", lambda f: And(
            f.b(port.wdata.valid) == Or(wq.nonempty(f), And(pending_offer(f), Not(G(f, "early")))),
            Implies(And(wq.nonempty(f), wq.head(f, "hit") == 1), And(
                byte_at(f(port.wdata.data), lane, nl) == wq.head(f, "byte"),
                bit_at(f(port.wdata.we), lane, nl) == wq.head(f, "en"))),
            Implies(And(Not(wq.nonempty(f)), pending_offer(f), hit(f)), And(
                byte_at(f(port.wdata.data), lane, nl) == f(h.m_byte),
                bit_at(f(port.wdata.we), lane, nl) == f(h.m_en)))))
        # payload stable while valid & not ready
        c.ghost(name + ".pwv", "bool", False, lambda f: And(f.b(port.wdata.valid), Not(f.b(port.wdata.ready))))
        c.ghost(name + ".pwd", len(port.wdata.data), 0, lambda f: f(port.wdata.data))
        c.ghost(name + ".pww", len(port.wdata.we), 0, lambda f: f(port.wdata.we))
        c.assume(name + ".write_data_held_until_taken", lambda f: Implies(G(f, "pwv"), And(
            f.b(port.wdata.valid), f(port.wdata.data) == G(f, "pwd"), f(port.wdata.we) == G(f, "pww"))))
        out["wq"] = wq
        out["wtaken"] = wtaken
    # specification memory for the watched byte: writes take effect in command acceptance order
    # (shared_spec: name of a ghost declared by the caller when several masters write the same memory)
    spec_now = (lambda f: f.g[shared_spec]) if shared_spec else (lambda f: G(f, "spec"))
    out["spec_write"] = lambda f: And(acc(f), is_w(f), hit(f), f(h.m_en) == 1)
    if not shared_spec:
        spec_next = lambda f: If_(out["spec_write"](f), f(h.m_byte), G(f, "spec"))
        c.ghost(name + ".spec", 8, init_byte, spec_next)
    if port.mode != "write":
        if port.rdata.ready in c.tr.allsigs:          # the crossbar never looks at rdata.ready: nothing to assume there
            c.assume(name + ".read_data_always_accepted", lambda f: f.b(port.rdata.ready))
        rret = lambda f: f.b(port.rdata.valid)
        rq = Queue(c, name + ".rq", Qr, {"hit": 1, "exp": 8},
                   push=lambda f: And(acc(f), Not(is_w(f))),
                   push_vals=lambda f: {"hit": bv1(hit(f)), "exp": spec_now(f)},
                   pop=rret)
        c.assume(name + ".bounded_reads_in_flight", lambda f: Implies(
            rq.full(f), Not(And(f.b(port.cmd.valid), Not(is_w(f))))))
        out["rq"] = rq
        nlr = len(port.rdata.data) // 8
        out["read_clauses"] = {
            "one_response_per_read_command": lambda f: Implies(rret(f), rq.nonempty(f)),
            "read_returns_last_written_byte_in_command_order": lambda f: Implies(
                And(rret(f), rq.nonempty(f), rq.head(f, "hit") == 1),
                byte_at(f(port.rdata.data), lane, nlr) == rq.head(f, "exp")),
        }
    return out
