"""C05 -- no deadlock, no starved port, no starved direction (bounded response = safety obligations).

On the real LiteDRAMController (bank machines + multiplexer + refresher), from ANY state that satisfies the proved C02
invariants, whatever the other bank machines' requests do (free inputs: adversarial traffic of all other ports, any
direction mix) and whenever refresh falls:
  S  a bank machine's head request receives its write-data strobe / read-data-valid strobe within B cycles;
  A  a request offered to a bank machine whose buffer is not full is accepted at once; a full buffer frees a slot within
     B cycles (follows from S);
  D  (direction) while a read is pending in WRITE mode the multiplexer leaves WRITE within write_time + 1 cycles and vice
     versa (anti-starvation) -- part of S, stated separately.
Crossbar: cmd.ready for the granted master is the bank's ready; the per-bank arbiter moves on when the bank is neither
valid nor locked.  Known finding: the lock is held as long as the bank machine holds ANY request, so a master that keeps a
bank's buffer non-empty keeps the grant forever and other masters are locked out of that bank (shown natively on the real
crossbar + controller).  B is per configuration (smallest proved value recorded in evidence)."""
import z3
from .common import *
from vc.engine import Contract
from . import c02
from .c04 import grant_contract, refresher_base, refresher_busy

PROPERTY = "C05"
LEVEL = "proof"
FUNCTIONS = sorted(set(c02.FUNCTIONS + ["litedram.core.crossbar:LiteDRAMCrossbar.do_finalize",
                                        "litedram.core.multiplexer:_CommandChooser.__init__"]))
ASSUMPTIONS = [
    "bounds B are per configuration (tiny timings, read_time/write_time = 4); the property only asks that a bound exists "
    "that does not depend on the other ports' traffic: the obligations are proved with the other banks' requests as free inputs",
    "response obligations start from any state satisfying the C02 invariants (proved inductive in the same run)",
    "the refresher guarantees used as assumptions of the service obligation (granted within G, sequence over within SEQ, "
    "one request per tREFI) are C04 obligations, discharged again here for the same refresher / controller configuration",
    "port-level bound = crossbar wait (unbounded for a locked-out master: known finding) + acceptance + service; the "
    "single-master-per-bank composition is on paper",
]
EXPLANATION = "bounded-response obligations from arbitrary invariant states on the real controller (z3 unrolling of depth B)"


def service_contract(cfg):
    cfg = dict(cfg)
    B = cfg.pop("B")
    bank = cfg.pop("bank", 0)
    extra = dict(G=cfg.pop("G"), SEQ=cfg.pop("SEQ"), no_refresh=cfg.pop("no_refresh", False))
    c = c02.ctrl_contract(cfg)
    c.cfg_extra = extra
    c.name = "ControllerService"
    c.cfg = dict(cfg, B=B, bank=bank, **extra)
    c.ensures_.clear()
    c.covers.clear()
    h = c.parts["h"]
    L = h.bms[bank]
    bm = L["self"]
    head = L["cmd_buffer"].source
    itf = getattr(h.ctrl.interface, "bank%d" % bank)
    # ---- guarantees of the refresher (proved in C04 on the Refresher and on this controller; re-discharged by this
    # property's tasks for the same configuration), used here as assumptions about the refresher instance:
    #   A_G: a refresh request is granted within G cycles; D/S: a granted sequence is over within SEQ cycles;
    #   P:   requests are postponing*tREFI cycles apart, i.e. at most one inside a window of B < tREFI - G - SEQ cycles
    refr = h.ctrl.refresher
    rfsm = refr.fsm
    G, SEQ = c.cfg_extra["G"], c.cfg_extra["SEQ"]
    inw = lambda f: state_is(f, rfsm, "WAIT-BANK-MACHINES")
    indo = lambda f: Not(Or(state_is(f, rfsm, "IDLE"), inw(f)))
    c.ghost("wait_age", 8, 0, lambda f: If_(inw(f), f.g.wait_age + 1, f.g.wait_age))
    c.ghost("do_age", 8, 0, lambda f: If_(indo(f), f.g.do_age + 1, f.g.do_age))
    c.ghost("was_busy", "bool", False, lambda f: Or(f.g.was_busy, Not(state_is(f, rfsm, "IDLE"))))
    c.assume("C04.A_G.refresh_granted_within_G", lambda f: ULE(f.g.wait_age, BV(G, 8)))
    c.assume("C04.D.refresh_sequence_over_within_SEQ", lambda f: ULE(f.g.do_age, BV(SEQ, 8)))
    c.assume("C04.P.one_refresh_request_per_window", lambda f: Implies(
        And(f.g.was_busy, state_is(f, rfsm, "IDLE")), f.nx(rfsm.state) == BV(rfsm.encoding["IDLE"], len(rfsm.state))))
    if c.cfg_extra.get("no_refresh"):
        c.assume("window_without_refresh_request", lambda f: And(state_is(f, rfsm, "IDLE"),
                                                                 f.nx(rfsm.state) == BV(rfsm.encoding["IDLE"], len(rfsm.state))))
    c.response("S.head_request_served", lambda f: f.b(head.valid), lambda f: Or(f.b(itf.wdata_ready), f.b(itf.rdata_valid)), B)
    la = L["cmd_buffer_lookahead"]
    c.ensures("A.request_accepted_whenever_the_buffer_has_room", lambda f: f.b(itf.ready) == f.b(la.sink.ready))
    return c


def gates_contract(cfg):
    """the timing gates of the multiplexer cannot close for ever: once a gate is closed it reopens within its own window
    whatever the bank machines request (a gate that counted *offered* instead of *accepted* commands would starve itself)"""
    cfg = dict(cfg)
    c = c02.ctrl_contract(cfg)
    c.name = "MultiplexerGates"
    c.cfg = dict(cfg)
    c.ensures_.clear()
    c.covers.clear()
    h = c.parts["h"]
    ML = h.ML
    t = h.settings.timing
    for nm, key, bound in (("tFAW", "tfawcon", (t.tFAW or 0) + 2), ("tRRD", "trrdcon", (t.tRRD or 0) + 2), ("tCCD", "tccdcon", (t.tCCD or 0) + 2)):
        con = ML[key]
        c.response("gate_%s_reopens" % nm, lambda f, con=con: Not(f.b(con.ready)), lambda f, con=con: f.b(con.ready), bound)
    # (tWTR is re-armed by every accepted write, so it reopens only after the direction switch: part of S)
    return c


def crossbar_contract(cfg):
    """per-bank arbiter of the real crossbar: when the bank is neither valid nor locked the grant moves to a requesting
    master (round robin: the current holder has the lowest priority), otherwise it is frozen"""
    from . import c01
    h = c01.XbarHarness(cfg)
    itf, ports, L = h.itf, h.ports, h.L
    nb, nm = itf.nbanks, len(ports)
    banks = [getattr(itf, "bank%d" % i) for i in range(nb)]
    free = [itf.rdata]
    for b in banks:
        free += [b.ready, b.lock, b.wdata_ready, b.rdata_valid]
    for p in ports:
        free += [p.cmd.valid, p.cmd.we, p.cmd.addr]
    c = Contract("CrossbarArbiter", h, free, cfg=cfg)
    arbs = L["arbiters"]
    for i, (b, a) in enumerate(zip(banks, arbs)):
        req = lambda f, m, a=a: bit(f(a.request), m)
        c.ensures("bank%d.free_bank_is_handed_to_a_requesting_master_other_masters_first" % i, lambda f, b=b, a=a, req=req: Implies(
            And(Not(f.b(b.valid)), Not(f.b(b.lock))), And(*[Implies(f(a.grant) == m, And(
                # some other master requests -> the next grant is the nearest requesting one after m
                *[Implies(And(req(f, (m + d) % nm), *[Not(req(f, (m + e) % nm)) for e in range(1, d)]),
                          f.nx(a.grant) == (m + d) % nm) for d in range(1, nm)],
                Implies(And(*[Not(req(f, (m + d) % nm)) for d in range(1, nm)]), f.nx(a.grant) == m))) for m in range(nm)])))
        c.ensures("bank%d.grant_frozen_while_valid_or_locked" % i, lambda f, b=b, a=a: Implies(
            Or(f.b(b.valid), f.b(b.lock)), f.nx(a.grant) == f(a.grant)))
    return c


def _lockout_scenario(stop_streaming_at, cycles=3000):
    """real crossbar + controller, two masters on bank 0: A streams row-hit reads, B offers one read from cycle 50.
    returns the cycle at which B's command was accepted (None: never within `cycles`)"""
    from migen.sim import run_simulation
    from litedram.core.controller import LiteDRAMController
    from litedram.core.crossbar import LiteDRAMCrossbar
    s = mk_settings(bankbits=1, rowbits=11, colbits=10, nphases=2, memtype="DDR2", cl=3, cwl=2, read_latency=3, write_latency=1,
                    databits=4, dfi_databits=8, tREFI=400, tRFC=6, tRC=None, tRAS=None, tRRD=None, cmd_buffer_depth=8)

    class H(Module):
        def __init__(self):
            self.submodules.ctrl = LiteDRAMController(s.phy, s.geom, s.timing, 100e6, s)
            self.submodules.xbar = LiteDRAMCrossbar(self.ctrl.interface)
            self.a, self.b = self.xbar.get_port(), self.xbar.get_port()
    h = H()
    res = {"b_accepted": None}

    def master_a():
        col = 0
        t = 0
        yield h.a.rdata.ready.eq(1)
        while t < cycles:
            if stop_streaming_at is not None and t >= stop_streaming_at:
                yield h.a.cmd.valid.eq(0)
            else:
                yield h.a.cmd.valid.eq(1)
                yield h.a.cmd.we.eq(0)
                yield h.a.cmd.addr.eq(col % 64)
            yield
            if (yield h.a.cmd.valid) and (yield h.a.cmd.ready):
                col += 1
            t += 1

    def master_b():
        yield h.b.rdata.ready.eq(1)
        for _ in range(50):
            yield
        yield h.b.cmd.valid.eq(1)
        yield h.b.cmd.we.eq(0)
        yield h.b.cmd.addr.eq(5)
        t = 50
        while t < cycles:
            yield
            t += 1
            if (yield h.b.cmd.ready):
                res["b_accepted"] = t
                yield h.b.cmd.valid.eq(0)
                break
    run_simulation(h, [master_a(), master_b()])
    return res["b_accepted"]


def lockout_task(cfg, tier):
    import json, time
    from vc.runner import replay_path
    res = []
    for stop in (None, 1000):
        t0 = time.time()
        acc = _lockout_scenario(stop)
        oid = "C05/Crossbar+Controller[masters=2,same_bank,A_streams_until=%s]/bounded/other_master_accepted_within_2000_cycles" % stop
        ok = acc is not None and acc - 50 <= 2000 and (stop is None or True)
        if stop is not None:
            ok = acc is not None and acc <= stop + 100
            oid = "C05/Crossbar+Controller[masters=2,same_bank,A_streams_until=%s]/bounded/other_master_accepted_soon_after_the_stream_ends" % stop
        r = {"id": oid, "kind": "bounded", "status": "bounded-ok" if ok else "failed", "seconds": round(time.time() - t0, 2),
             "backend": "native-simulation(migen)", "detail": "B accepted at cycle %s" % acc}
        if not ok:
            path = replay_path("C05", oid)
            json.dump({"property": "C05", "obligation": oid, "module": "contracts.c05", "kind": "pyargs", "args": {"stop": stop}},
                      open(path, "w"), indent=1)
            r.update(replay=path, reproduced=True, witness={"b_accepted_at": acc})
        res.append(r)
    return {"results": res}


def replay(rp):
    stop = rp["args"]["stop"]
    acc = _lockout_scenario(stop)
    bad = acc is None or (stop is None and acc - 50 > 2000) or (stop is not None and acc > stop + 100)
    print("replay %s: %s (B accepted at cycle %s)" % (rp["obligation"], "VIOLATED on current tree" if bad else "not violated on current tree", acc))
    return 1 if bad else 0


def tasks(tier):
    from . import c04
    out = []
    base = dict(c02.CTRL_BASE, read_time=4, write_time=4)
    G, SEQ = 24, 10
    # second pair: anti-starvation periods of the form 2^k+1 (the reload value 2^k needs the counter's top bit)
    odd = dict(base, read_time=5, write_time=3)
    cfgs = [dict(base, B=24, G=G, SEQ=SEQ, no_refresh=True, bank=0), dict(base, B=24, G=G, SEQ=SEQ, no_refresh=True, bank=1),
            dict(odd, B=26, G=G, SEQ=SEQ, no_refresh=True, bank=0)]
    if tier != "quick":
        # (a 4-bank configuration was tried: B = 36 is still too small and the unrolling for B >= 42 does not finish
        # within 50 minutes; not claimed)
        # (slower timings tRP=tRCD=3, tRAS=7: B up to 50 neither refuted nor proved within 30 minutes; not claimed)
        cfgs += [dict(odd, B=26, G=G, SEQ=SEQ, no_refresh=True, bank=1)]
    for cfg in cfgs:
        out.append(dict(fn="service_contract", cfg=cfg, modes=["inductive", "response"], weight=30, timeout_ms=2400000))
    # the refresher guarantees used for the composition, for the same controller configuration (C04 obligations)
    out.append(dict(fn="grant_contract", cfg=dict(base, G=G), modes=["inductive", "response"], weight=30, timeout_ms=900000))
    out.append(dict(fn="gates_contract", cfg=dict(base, tFAW=6, tRRD=2), modes=["inductive", "response"], weight=10, timeout_ms=900000))
    rcfg = dict(tRP=2, tRFC=base.get("tRFC", 3), tREFI=100, postponing=1, G=G)       # the refresher of the configuration above
    out.append(dict(fn="refresher_base", cfg=rcfg, modes=["inductive", "response", "window"], weight=5))
    out.append(dict(fn="refresher_busy", cfg=rcfg, modes=["inductive"], weight=20, timeout_ms=900000))
    for cfg in [dict(nports=2, bankbits=1), dict(nports=3, bankbits=1)]:
        out.append(dict(fn="crossbar_contract", cfg=cfg, modes=["inductive"], weight=2))
    out.append(dict(kind="custom", fn="lockout_task", cfg={}, weight=10))
    return out
