"""C17 -- generated initialisation programs the DRAM consistently with the controller.

PyVC on the real init-sequence generators (AST re-read from /repo each run), with the hand-transcribed JEDEC mode-register
field tables below as the oracle (trusted base):
  * SDR/DDR/LPDDR/DDR2/DDR3/DDR4: decode(format(...)) of burst length, CAS latency, CAS write latency for every CL/CWL
    pair that get_default_cl_cwl can return (for ALL tck: get_default_cl_cwl is itself executed symbolically) plus the
    pairs of the formatters' own tables; KeyError-freedom; field round-trip (=> no overlap / overflow);
  * write recovery: symbolic controller timing and clock ratio; WR(mode register) must cover the datasheet tWR for every
    clock frequency and must not exceed what the controller waits (timing.tWR * nphases), with timing.tWR constrained by
    C16's postcondition (callee contract);
  * reg(), swap_bit(): contracts (symbolic values);
  * LPDDR4 / LPDDR5: the real generators executed over their complete (RL, WL) tables and option sets (finite domain,
    exhaustive), decoded with the JEDEC tables;
  * sequence shape; C vs Python header: both emitters executed over the enumerated configurations and parsed back
    (labelled bounded).
"""
import json
import re
import time
import z3
from vc import pyvc
from vc.pyvc import Interp, Rec, Summary, OutOfSubset, Opaque
from vc.runner import replay_path
import litedram.init as INIT
import litedram.common as COMMON

PROPERTY = "C17"
LEVEL = "proof"
FUNCTIONS = ["litedram.init:get_sdr_phy_init_sequence", "litedram.init:get_ddr_phy_init_sequence",
             "litedram.init:get_lpddr_phy_init_sequence", "litedram.init:get_ddr2_phy_init_sequence",
             "litedram.init:get_ddr3_phy_init_sequence", "litedram.init:get_ddr4_phy_init_sequence",
             "litedram.init:get_lpddr4_phy_init_sequence", "litedram.init:get_lpddr5_phy_init_sequence",
             "litedram.init:reg", "litedram.init:swap_bit", "litedram.common:get_default_cl_cwl",
             "litedram.common:get_sys_latency", "litedram.common:get_sys_phase",
             "litedram.init:get_sdram_phy_c_header", "litedram.init:get_sdram_phy_py_header"]
ASSUMPTIONS = [
    "JEDEC mode-register field encodings (SDR..DDR4 MR0/MR2, LPDDR4 MR1/MR2) transcribed by hand below: trusted base",
    "write-recovery clause uses C16's postcondition for timing.tWR (smallest cycle count covering tWR with phase margin); "
    "JEDEC operating ranges as preconditions (DDR3: tCK >= 0.9375 ns, DDR4: tCK >= 0.625 ns, tWR = 15 ns)",
    "string labels / comments of the sequence entries are dropped by the extraction (opaque)",
    "LPDDR4/LPDDR5 generators iterate over list-of-list tables and float-keyed dicts: executed exhaustively over their "
    "finite domain instead of symbolically; C/Python header emitters are string code: executed and parsed (bounded)",
    "Python float treated as real in get_default_cl_cwl's tck comparisons",
]
EXPLANATION = "verification conditions from the real generators' ASTs; JEDEC tables as oracle"

MODE_REGISTER = INIT.cmds["MODE_REGISTER"]

# ---- JEDEC tables (hand-transcribed) --------------------------------------------------------------------------------
JEDEC_BL_LEGACY = {0: 1, 1: 2, 2: 4, 3: 8}                   # SDR/DDR/LPDDR/DDR2 MR[2:0]
DDR3_CL = {0b0010: 5, 0b0100: 6, 0b0110: 7, 0b1000: 8, 0b1010: 9, 0b1100: 10, 0b1110: 11, 0b0001: 12, 0b0011: 13,
           0b0101: 14}                                          # (A6 A5 A4 A2)
DDR3_WR = {0b000: 16, 0b001: 5, 0b010: 6, 0b011: 7, 0b100: 8, 0b101: 10, 0b110: 12, 0b111: 14}   # MR0[11:9]
DDR3_BL = {0b00: 8, 0b10: 4}
DDR4_CL = {0b00000: 9, 0b00001: 10, 0b00010: 11, 0b00011: 12, 0b00100: 13, 0b00101: 14, 0b00110: 15, 0b00111: 16,
           0b01000: 18, 0b01001: 20, 0b01010: 22, 0b01011: 24, 0b01100: 23, 0b01101: 17, 0b01110: 19, 0b01111: 21,
           0b10000: 25, 0b10001: 26, 0b10010: 27, 0b10011: 28, 0b10100: 29, 0b10101: 30, 0b10110: 31, 0b10111: 32}
DDR4_WR = {0b0000: 10, 0b0001: 12, 0b0010: 14, 0b0011: 16, 0b0100: 18, 0b0101: 20, 0b0110: 24, 0b0111: 22,
           0b1000: 26, 0b1001: 28}                              # (A13 A11 A10 A9)
DDR4_CWL = {0b000: 9, 0b001: 10, 0b010: 11, 0b011: 12, 0b100: 14, 0b101: 16, 0b110: 18, 0b111: 20}
LPDDR4_RL = {0: 6, 1: 10, 2: 14, 3: 20, 4: 24, 5: 28, 6: 32, 7: 36}     # MR2[2:0], DBI off
LPDDR4_WL_A = {0: 4, 1: 6, 2: 8, 3: 10, 4: 12, 5: 14, 6: 16, 7: 18}     # MR2[5:3], set A
LPDDR4_NWR = {0: 6, 1: 10, 2: 16, 3: 20, 4: 24, 5: 30, 6: 34, 7: 40}    # MR1[6:4]
LPDDR4_BL = {0: 16, 1: 32}
LPDDR4_ROWS = [(6, 4, 6), (10, 6, 10), (14, 8, 16), (20, 10, 20), (24, 12, 24), (28, 14, 30), (32, 16, 34), (36, 18, 40)]


def _res(oid, status, secs, backend, **kw):
    r = {"id": oid, "kind": "pyvc", "status": status, "seconds": round(secs, 3), "backend": backend}
    r.update(kw)
    return r


def bits(x, hi, lo):
    """bit-field of an integer term / int"""
    if isinstance(x, int):
        return z3.IntVal((x >> lo) & ((1 << (hi - lo + 1)) - 1))
    bv = pyvc.as_bv(x)
    return z3.BV2Int(z3.Extract(hi, lo, bv))


def ibits(x, hi, lo):
    return (x >> lo) & ((1 << (hi - lo + 1)) - 1)


def table(tbl, key):
    """JEDEC table lookup as a term (key: int term); -1 for reserved encodings"""
    if isinstance(key, int):
        return tbl.get(key, -1)
    r = z3.IntVal(-1)
    for k, v in tbl.items():
        r = z3.If(key == k, z3.IntVal(v), r)
    return r


def mode_registers(seq):
    """last value loaded into each mode register (bank address) of an init sequence"""
    out, order = {}, []
    for ent in seq:
        if len(ent) != 5:
            raise OutOfSubset("sequence entry shape")
        _c, a, ba, cmd, _d = ent
        if cmd == MODE_REGISTER:
            out[ba] = a
            order.append(ba)
    return out, order


def phy_rec(memtype, cl, cwl, nphases, **kw):
    f = dict(memtype=memtype, cl=cl, cwl=cwl, nphases=nphases, is_rdimm=False)
    f.update(kw)
    return Rec(f, "PhySettings")


def native_ret(fn, memtype, nph, model, defaults):
    """call the REAL generator with the model's concrete values"""
    def g(name):
        v = model.get(name)
        if v is None:
            return defaults.get(name)
        return int(_num(v))
    ps = _PS()
    ps.memtype, ps.nphases, ps.is_rdimm = memtype, nph, False
    ps.cl, ps.cwl = g("cl"), g("cwl")
    ts = _PS()
    ts.tWR, ts.tWTR, ts.fine_refresh_mode = g("tWR_cyc") or 2, g("tWTR_cyc") or 2, "1x"
    return fn(ps, ts)


def prove_all(prefix, I, paths, ensures, pre, native=None):
    """like c16.discharge: one result per clause over all paths, plus side obligations by kind.
    native(model) -> concrete return value of the real function for the model's inputs (replay)"""
    out = []
    for name, fn in ensures.items():
        t0 = time.time()
        status, backend, where, model = "proved", "z3", None, None
        for pc, ret, env in paths:
            try:
                goal = fn(ret, env)
            except OutOfSubset as e:
                status, backend = "unknown", "out-of-subset: %s" % e
                break
            if isinstance(goal, bool):
                goal = z3.BoolVal(goal)
            s_, m_, _s, backend = pyvc.prove(pc, goal, timeout_ms=30000)
            if s_ != "proved":
                status, model = s_, m_
                break
        r = _res("%s/pyvc/%s" % (prefix, name), status, time.time() - t0, backend)
        if model is not None:
            r["model"] = {str(d): str(model[d]) for d in model.decls()}
            if native is not None:
                try:
                    ret_c = native(r["model"])
                    subs = [(d(), model[d]) for d in model.decls() if d.arity() == 0]
                    g_c = fn(ret_c, {})
                    g_c = z3.simplify(z3.substitute(g_c, *subs)) if not isinstance(g_c, bool) else z3.BoolVal(g_c)
                    r["reproduced"] = bool(z3.is_false(g_c))
                    r["native"] = {"real_function_returned_mode_registers": {str(k): v for k, v in mode_registers(ret_c[0])[0].items()
                                                                             if isinstance(v, int)}}
                except Exception as e:  # noqa
                    r["native_error"] = "%s: %s" % (type(e).__name__, e)
        out.append(r)
    groups = {}
    for kind, pc, goal, where in I.obligations:
        groups.setdefault(kind, []).append((pc, goal, where))
    for kind, lst in groups.items():
        t0 = time.time()
        status, where_f, backend, model = "proved", None, "z3", None
        for pc, goal, where in lst:
            s_, m_, _s, backend = pyvc.prove(pc, goal, timeout_ms=30000)
            if s_ != "proved":
                status, where_f, model = s_, where, m_
                break
        r = _res("%s/pyvc/no_%s" % (prefix, kind), status, time.time() - t0, backend, count=len(lst))
        if where_f:
            r["where"] = where_f
        if model is not None:
            r["model"] = {str(d): str(model[d]) for d in model.decls()}
        out.append(r)
    return out


def new_interp():
    return Interp(globals_={"cmds": INIT.cmds}, functions={"reg": INIT.reg, "swap_bit": INIT.swap_bit})


# ---------------------------------------------------------------------------------------------------------------------
# CL/CWL domain: get_default_cl_cwl for all tck
# ---------------------------------------------------------------------------------------------------------------------

def default_pairs(memtype, res):
    """all (cl, cwl) get_default_cl_cwl(memtype, tck) can return, by symbolic execution over every tck > 0"""
    I = Interp(classes={"OrderedDict": lambda a, k: {}})
    tck = z3.Real("tck")
    t0 = time.time()
    st = pyvc.State({}, [tck > 0])
    try:
        paths = I.call_function(COMMON.get_default_cl_cwl, [memtype, tck], {}, st)
    except OutOfSubset as e:
        res.append(_res("C17/get_default_cl_cwl[memtype=%s]/pyvc/in_subset" % memtype, "unknown", 0, "out-of-subset: %s" % e))
        return []
    pairs = sorted({ret for pc, ret, env in paths}, key=lambda p: (p[0], p[1] or 0))
    # contract: table rows are ordered by falling tck bound, so a faster clock never gets a smaller CL; raise only when
    # tck is below the fastest supported bin
    raises = [o for o in I.obligations if o[0] == "raise"]
    ok = len(raises) == 1
    fastest = None
    if ok:
        s = z3.Solver()
        for c in raises[0][1]:
            s.add(c)
        # the raise path must be exactly tck < min bound: check it is disjoint from every returning path
        ok = all(pyvc.prove(pc, z3.Not(z3.And(*raises[0][1]))) [0] == "proved" for pc, _r, _e in paths)
    mono = True
    for (pc1, r1, _e1) in paths:
        for (pc2, r2, _e2) in paths:
            # if tck1 satisfies path1 and tck2 path2 and tck1 <= tck2 then cl1 >= cl2
            t1, t2 = z3.Real("t1"), z3.Real("t2")
            c1 = z3.substitute(z3.And(*pc1), (tck, t1))
            c2 = z3.substitute(z3.And(*pc2), (tck, t2))
            if r1[0] < r2[0]:
                stt, _m, _s, _b = pyvc.prove([c1, c2], z3.Not(t1 <= t2))
                mono = mono and stt == "proved"
    res.append(_res("C17/get_default_cl_cwl[memtype=%s]/pyvc/total_above_fastest_bin_and_cl_monotone_in_tck" % memtype,
                    "proved" if (ok and mono) else "failed", time.time() - t0, "z3", pairs=[list(p) for p in pairs]))
    return pairs


# ---------------------------------------------------------------------------------------------------------------------
# legacy memtypes
# ---------------------------------------------------------------------------------------------------------------------

def legacy_task(cfg, tier):
    res = []
    for memtype, fn, nphs in (("SDR", INIT.get_sdr_phy_init_sequence, [1, 2]), ("DDR", INIT.get_ddr_phy_init_sequence, [2]),
                              ("LPDDR", INIT.get_lpddr_phy_init_sequence, [2]), ("DDR2", INIT.get_ddr2_phy_init_sequence, [2])):
        pairs = default_pairs(memtype, res) if memtype in ("SDR", "DDR2") else [(2, None), (3, None)]
        cls = sorted({p[0] for p in pairs})
        for nph in nphs:
            I = new_interp()
            cl = z3.Int("cl")
            pre = [z3.Or(*[cl == c for c in cls])]
            bl_expect = nph if memtype == "SDR" else COMMON.burst_lengths[memtype]
            tm = Rec({"tWR": z3.Int("tWR_cyc"), "tWTR": z3.Int("tWTR_cyc")}, "TimingSettings")
            st = pyvc.State({}, list(pre))
            try:
                paths = I.call_function(fn, [phy_rec(memtype, cl, None, nph), tm], {}, st)
            except OutOfSubset as e:
                res.append(_res("C17/%s[nphases=%d]/pyvc/in_subset" % (fn.__name__, nph), "unknown", 0, "out-of-subset: %s" % e))
                continue

            def mrs(ret):
                return mode_registers(ret[0])[0]
            ens = {
                "burst_length_field_is_controller_burst_length": lambda ret, env: table(JEDEC_BL_LEGACY, bits(mrs(ret)[0], 2, 0)) == bl_expect,
                "cas_latency_field_is_phy_cl": lambda ret, env: bits(mrs(ret)[0], 6, 4) == cl,
                "no_stray_bits_in_mode_register": lambda ret, env: bits(mrs(ret)[0], 39, 12 if memtype == "DDR2" else 7) == 0,
            }
            if memtype == "DDR2":
                ens["mode_register_sequence_shape"] = lambda ret, env: z3.BoolVal(
                    mode_registers(ret[0])[1] == [3, 2, 1, 0, 0, 1, 1])
            res += prove_all("C17/%s[nphases=%d]" % (fn.__name__, nph), I, paths, ens, pre,
                             native=lambda m, fn=fn, memtype=memtype, nph=nph: native_ret(fn, memtype, nph, m, {}))
    # DDR2 write recovery: WR field = clocks - 1 must cover tWR = 15 ns for every DDR2 clock (tCK 2.5..5 ns)
    I = new_interp()
    tck = z3.Real("tck_ns")
    n = z3.Int("tWR_cyc")
    pre = [tck >= 2.5, tck <= 8, n >= 1]
    tm = Rec({"tWR": n, "tWTR": z3.Int("tWTR_cyc")}, "TimingSettings")
    paths = I.call_function(INIT.get_ddr2_phy_init_sequence, [phy_rec("DDR2", 5, 4, 2), tm], {}, pyvc.State({}, list(pre)))
    T = tck * 2
    c16 = z3.And(z3.ToReal(n) * T - tck >= 15, (z3.ToReal(n) - 1) * T - tck < 15)      # C16 post for tWR = 15 ns, d = 2
    res += prove_all("C17/get_ddr2_phy_init_sequence[write_recovery]", I, paths, {
        "write_recovery_covers_tWR_and_not_more_than_controller_waits": lambda ret, env: z3.Implies(c16, z3.And(
            z3.ToReal(bits(mode_registers(ret[0])[0][0], 11, 9) + 1) * tck >= 15,
            bits(mode_registers(ret[0])[0][0], 11, 9) + 1 <= n * 2))}, pre)
    return finalize(res)


# ---------------------------------------------------------------------------------------------------------------------
# DDR3 / DDR4
# ---------------------------------------------------------------------------------------------------------------------

def ddr3_cl(mr0):
    code = bits(mr0, 6, 4) * 2 + bits(mr0, 2, 2)
    return table(DDR3_CL, code)


def ddr4_cl(mr0):
    code = bits(mr0, 12, 12) * 16 + bits(mr0, 6, 4) * 2 + bits(mr0, 2, 2)
    return table(DDR4_CL, code)


def ddr4_wr(mr0):
    return table(DDR4_WR, bits(mr0, 13, 13) * 8 + bits(mr0, 11, 9))


def ddr34_task(cfg, tier):
    res = []
    memtype = cfg["memtype"]
    fn = INIT.get_ddr3_phy_init_sequence if memtype == "DDR3" else INIT.get_ddr4_phy_init_sequence
    pairs = default_pairs(memtype, res)
    # CL / CWL / BL decode for the default pairs (path per pair) and, separately, every CL of the JEDEC table
    for nph in (2, 4):
        I = new_interp()
        cl, cwl = z3.Int("cl"), z3.Int("cwl")
        pre = [z3.Or(*[z3.And(cl == a, cwl == b) for a, b in pairs])]
        twtr = z3.Int("tWTR_cyc")
        twr = z3.Int("tWR_cyc")
        pre += [twtr >= 1, twr >= 1, twtr <= 3, twr <= (4 if memtype == "DDR3" else 7)]
        tm = Rec({"tWR": twr, "tWTR": twtr, "fine_refresh_mode": "1x"}, "TimingSettings")
        st = pyvc.State({}, list(pre))
        try:
            paths = I.call_function(fn, [phy_rec(memtype, cl, cwl, nph), tm], {}, st)
        except OutOfSubset as e:
            res.append(_res("C17/%s[nphases=%d]/pyvc/in_subset" % (fn.__name__, nph), "unknown", 0, "out-of-subset: %s" % e))
            continue
        mrs = lambda ret: mode_registers(ret[0])[0]
        if memtype == "DDR3":
            ens = {
                "burst_length_field_is_8": lambda ret, env: table(DDR3_BL, bits(mrs(ret)[0], 1, 0)) == 8,
                "cas_latency_field_is_phy_cl": lambda ret, env: ddr3_cl(mrs(ret)[0]) == cl,
                "cas_write_latency_field_is_phy_cwl": lambda ret, env: bits(mrs(ret)[2], 5, 3) + 5 == cwl,
                "cwl_field_does_not_overflow": lambda ret, env: z3.And(bits(mrs(ret)[2], 8, 6) == 0, bits(mrs(ret)[2], 2, 0) == 0),
                "dll_reset_set_and_reserved_bits_clear": lambda ret, env: z3.And(
                    bits(mrs(ret)[0], 8, 8) == 1, bits(mrs(ret)[0], 39, 12) == 0, bits(mrs(ret)[0], 3, 3) == 0, bits(mrs(ret)[0], 7, 7) == 0),
                "mode_register_order_mr2_mr3_mr1_mr0": lambda ret, env: z3.BoolVal(mode_registers(ret[0])[1] == [2, 3, 1, 0]),
                "mr1_returned_for_write_leveling_is_the_programmed_one": lambda ret, env: ret[1][1] == mrs(ret)[1],
            }
        else:
            ens = {
                "burst_length_field_is_8": lambda ret, env: table(DDR3_BL, bits(mrs(ret)[0], 1, 0)) == 8,
                "cas_latency_field_is_phy_cl": lambda ret, env: ddr4_cl(mrs(ret)[0]) == cl,
                "cas_write_latency_field_is_phy_cwl": lambda ret, env: table(DDR4_CWL, bits(mrs(ret)[2], 5, 3)) == cwl,
                "dll_reset_set_and_reserved_bits_clear": lambda ret, env: z3.And(
                    bits(mrs(ret)[0], 8, 8) == 1, bits(mrs(ret)[0], 39, 14) == 0, bits(mrs(ret)[0], 3, 3) == 0, bits(mrs(ret)[0], 7, 7) == 0),
                "mode_register_order_mr3_mr6_mr5_mr4_mr2_mr1_mr0": lambda ret, env: z3.BoolVal(
                    mode_registers(ret[0])[1] == [3, 6, 5, 4, 2, 1, 0]),
                "mr1_returned_for_write_leveling_is_the_programmed_one": lambda ret, env: ret[1][1] == mrs(ret)[1],
            }
        res += prove_all("C17/%s[nphases=%d,default_cl_cwl_pairs]" % (fn.__name__, nph), I, paths, ens, pre,
                         native=lambda m, nph=nph: native_ret(fn, memtype, nph, m, {}))
    # write recovery, parametric: datasheet tWR = 15 ns, any clock in the JEDEC range, ratio d, timing.tWR from C16's post
    for d in (2, 4):
        I = new_interp()
        tck = z3.Real("tck_ns")
        n, twtr = z3.Int("tWR_cyc"), z3.Int("tWTR_cyc")
        tck_min = 0.9375 if memtype == "DDR3" else 0.625
        T = tck * d
        margin = tck * (d - 1)
        c16_wr = z3.And(z3.ToReal(n) * T - margin >= 15, (z3.ToReal(n) - 1) * T - margin < 15)
        # tWTR: max(4 ck, 7.5 ns) by C16's post
        c16_wtr = z3.And(z3.ToReal(twtr) * T - margin >= 7.5, twtr * d >= 4,
                         z3.Or((z3.ToReal(twtr) - 1) * T - margin < 7.5, (twtr - 1) * d < 4))
        pre = [tck >= tck_min, tck <= (3.4 if memtype == "DDR3" else 1.6), n >= 1, twtr >= 1, c16_wr, c16_wtr]
        cl0, cwl0 = pairs[0]
        tm = Rec({"tWR": n, "tWTR": twtr, "fine_refresh_mode": "1x"}, "TimingSettings")
        st = pyvc.State({}, list(pre))
        try:
            paths = I.call_function(fn, [phy_rec(memtype, cl0, cwl0, d), tm], {}, st)
        except OutOfSubset as e:
            res.append(_res("C17/%s[write_recovery,d=%d]/pyvc/in_subset" % (fn.__name__, d), "unknown", 0, "out-of-subset: %s" % e))
            continue
        wr_of = (lambda ret: table(DDR3_WR, bits(mode_registers(ret[0])[0][0], 11, 9))) if memtype == "DDR3" else \
            (lambda ret: ddr4_wr(mode_registers(ret[0])[0][0]))
        res += prove_all("C17/%s[write_recovery,d=%d]" % (fn.__name__, d), I, paths, {
            "write_recovery_covers_datasheet_tWR": lambda ret, env: z3.ToReal(wr_of(ret)) * tck >= 15,
            "write_recovery_not_more_than_controller_waits": lambda ret, env: wr_of(ret) <= n * d,
        }, pre)
    return finalize(res)


# ---------------------------------------------------------------------------------------------------------------------
# reg / swap_bit contracts
# ---------------------------------------------------------------------------------------------------------------------

def helpers_task(cfg, tier):
    res = []
    for layout in ([(0, 2), (2, 1), (3, 1), (4, 3), (7, 1)], [(0, 3), (3, 3), (6, 1), (7, 1)], [(0, 6), (6, 1)]):
        I = new_interp()
        vals = [z3.Int("v%d" % i) for i in range(len(layout))]
        pre = [v >= 0 for v in vals]
        fields = [(sh, w, v) for (sh, w), v in zip(layout, vals)]
        st = pyvc.State({}, list(pre))
        paths = I.call_function(INIT.reg, [fields], {}, st)
        # the asserts of reg() are its precondition here: they become path conditions; the postcondition is the layout
        asserts = [o for o in I.obligations if o[0] == "assert"]
        I.obligations = [o for o in I.obligations if o[0] != "assert"]
        fits = z3.And(*[v < 2 ** w for (sh, w), v in zip(layout, vals)])
        ens = {"every_field_lands_at_its_offset": lambda ret, env: z3.And(
            *[bits(ret, sh + w - 1, sh) == v for (sh, w), v in zip(layout, vals)])}
        r = prove_all("C17/reg[layout=%s]" % "+".join("%d:%d" % l for l in layout), I, paths, ens, pre)
        # asserts hold exactly when every value fits (disjoint layout): overflow is always caught
        t0 = time.time()
        okk = True
        for kind, pc, goal, where in asserts:
            okk = okk and pyvc.prove(pc + [fits], goal)[0] == "proved"
        r.append(_res("C17/reg[layout=%s]/pyvc/asserts_hold_when_values_fit" % "+".join("%d:%d" % l for l in layout),
                      "proved" if okk else "failed", time.time() - t0, "z3"))
        res += r
    # overlapping layout is rejected
    I = new_interp()
    v0, v1 = z3.Int("v0"), z3.Int("v1")
    st = pyvc.State({}, [v0 >= 0, v1 >= 0, v0 < 8, v1 < 8])
    I.call_function(INIT.reg, [[(0, 3, v0), (2, 3, v1)]], {}, st)
    t0 = time.time()
    rej = any(pyvc.prove(pc, goal)[0] == "failed" for kind, pc, goal, where in I.obligations if kind == "assert")
    res.append(_res("C17/reg[overlap]/pyvc/overlapping_fields_fail_an_assert", "proved" if rej else "failed", time.time() - t0, "z3"))
    # swap_bit
    for a, b in ((3, 4), (5, 6), (7, 8), (11, 13), (0, 1)):
        I = new_interp()
        num = z3.Int("num")
        pre = [num >= 0, num < 2 ** 18]
        paths = I.call_function(INIT.swap_bit, [num, a, b], {}, pyvc.State({}, list(pre)))
        others = [i for i in range(18) if i not in (a, b)]
        res += prove_all("C17/swap_bit[a=%d,b=%d]" % (a, b), I, paths, {
            "exchanges_the_two_bits_and_nothing_else": lambda ret, env: z3.And(
                bits(ret, a, a) == bits(num, b, b), bits(ret, b, b) == bits(num, a, a),
                *[bits(ret, i, i) == bits(num, i, i) for i in others])}, pre)
    return finalize(res)


# ---------------------------------------------------------------------------------------------------------------------
# LPDDR4 / LPDDR5: finite domain, exhaustive
# ---------------------------------------------------------------------------------------------------------------------

class _PS:
    pass


def lpddr_task(cfg, tier):
    res = []
    t0 = time.time()
    bad, n = [], 0
    opts = ["disable", "RZQ/1", "RZQ/2", "RZQ/3", "RZQ/4", "RZQ/5", "RZQ/6"]
    for rl, wl, nwr in LPDDR4_ROWS:
        for o in opts:
            ps = _PS()
            ps.cl, ps.cwl, ps.memtype, ps.nphases = rl, wl, "LPDDR4", 8
            ps.dq_odt, ps.ca_odt, ps.pull_down_drive_strength = o, opts[(opts.index(o) + 2) % 7], opts[(opts.index(o) + 4) % 7]
            try:
                seq, mr = INIT.get_lpddr4_phy_init_sequence(ps, None)
            except Exception as e:  # noqa
                bad.append("LPDDR4 rl=%d wl=%d: %s: %s" % (rl, wl, type(e).__name__, e))
                continue
            n += 1
            regs, order = mode_registers(seq)
            if LPDDR4_RL.get(ibits(regs[2], 2, 0)) != rl:
                bad.append("LPDDR4 RL decode %d != %d" % (LPDDR4_RL.get(ibits(regs[2], 2, 0)), rl))
            if LPDDR4_WL_A.get(ibits(regs[2], 5, 3)) != wl or ibits(regs[2], 6, 6) != 0:
                bad.append("LPDDR4 WL decode for wl=%d" % wl)
            if LPDDR4_NWR.get(ibits(regs[1], 6, 4)) != nwr:
                bad.append("LPDDR4 nWR decode for rl=%d" % rl)
            if LPDDR4_BL.get(ibits(regs[1], 1, 0)) != COMMON.burst_lengths["LPDDR4"]:
                bad.append("LPDDR4 BL decode")
            if any(v >= 256 or v < 0 for v in regs.values()) or order != sorted(order):
                bad.append("LPDDR4 opcode range / MR order")
            if regs != {k: v for k, v in mr.items()}:
                bad.append("LPDDR4 returned mr dict differs from programmed sequence")
    # mismatching (RL, WL) must be rejected, not silently programmed
    ps = _PS()
    ps.cl, ps.cwl, ps.memtype, ps.nphases = 14, 6, "LPDDR4", 8
    try:
        INIT.get_lpddr4_phy_init_sequence(ps, None)
        bad.append("LPDDR4 inconsistent (RL=14, WL=6) accepted")
    except AssertionError:
        pass
    except Exception as e:  # noqa
        bad.append("LPDDR4 inconsistent pair: unexpected %s" % type(e).__name__)
    r = _res("C17/get_lpddr4_phy_init_sequence[all_RL_WL_rows_x_odt_options]/pyvc/decode_matches_phy_latencies@%d" % n,
             "proved" if not bad else "failed", time.time() - t0, "exhaustive-enumeration(cpython), full finite domain")
    if bad:
        r["where"], r["reproduced"] = bad[0], True
    res.append(r)
    # LPDDR5
    t0 = time.time()
    bad, n = [], 0
    try:
        from litedram.phy.lpddr5.basephy import FREQUENCY_RANGES
        for ratio, ranges in FREQUENCY_RANGES.items():
            for fr in ranges:
                frs = fr.for_set(wl_set="A", rl_set=0)
                ps = _PS()
                ps.cl, ps.cwl, ps.memtype, ps.nphases, ps.wck_ck_ratio = frs.rl, frs.wl, "LPDDR5", 1, ratio
                try:
                    seq, mr = INIT.get_lpddr5_phy_init_sequence(ps, None)
                except Exception as e:  # noqa
                    bad.append("LPDDR5 ratio=%s rl=%d wl=%d: %s: %s" % (ratio, frs.rl, frs.wl, type(e).__name__, e))
                    continue
                n += 1
                regs, order = mode_registers(seq)
                if ibits(regs[1], 7, 4) != frs.mr or ibits(regs[2], 3, 0) != frs.mr or ibits(regs[2], 7, 4) != frs.n_wr_op:
                    bad.append("LPDDR5 MR1/MR2 latency codes for rl=%d wl=%d" % (frs.rl, frs.wl))
                if any(v >= 256 or v < 0 for v in regs.values()) or order != sorted(order):
                    bad.append("LPDDR5 opcode range / MR order")
                if ibits(regs[18], 7, 7) != {2: 1, 4: 0}[ratio]:
                    bad.append("LPDDR5 WCK:CK ratio bit")
        status = "proved" if not bad else "failed"
    except ImportError as e:
        status, bad = "unknown", ["cannot import LPDDR5 tables: %s" % e]
    r = _res("C17/get_lpddr5_phy_init_sequence[all_frequency_ranges]/pyvc/latency_codes_match_selected_range@%d" % n,
             status, time.time() - t0, "exhaustive-enumeration(cpython), full finite domain")
    if bad:
        r["where"], r["reproduced"] = bad[0], status == "failed"
    res.append(r)
    return finalize(res)


# ---------------------------------------------------------------------------------------------------------------------
# C vs Python header (bounded)
# ---------------------------------------------------------------------------------------------------------------------

def _swapb(x, i, j):
    bi, bj = (x >> i) & 1, (x >> j) & 1
    if bi != bj:
        x ^= (1 << i) | (1 << j)
    return x


def _device_view_results(t0):
    """DDR4 clam-shell / RDIMM: the copies of every mode-register write in the C header make EVERY device population latch
    the generated mode-register value (independent device-side model: a bottom device sees the address mirrored --
    A3<->A4, A5<->A6, A7<->A8, A11<->A13, BA0<->BA1 --, a B-side device behind the RCD sees A3-A9, A11, A13, BA, BG
    inverted); bounded: enumerated CL/CWL pairs x topologies, executed natively"""
    from litedram.common import PhySettings, TimingSettings, GeomSettings
    from litedram.init import get_sdram_phy_c_header, get_sdram_phy_init_sequence
    mirror = lambda a, ba: (_swapb(_swapb(_swapb(_swapb(a, 3, 4), 5, 6), 7, 8), 11, 13), _swapb(ba, 0, 1))
    invert = lambda a, ba: (a ^ 0b10101111111000, ba ^ 0b1111)
    res = []
    for clam, rdimm in ((True, False), (False, True), (True, True)):
        bad, n = None, 0
        for cl, cwl in ((9, 9), (11, 9), (16, 12), (20, 14)):
            ps = PhySettings(phytype="verif", memtype="DDR4", databits=16, dfi_databits=32, nphases=4, rdphase=0, wrphase=1,
                             cl=cl, cwl=cwl, read_latency=5, write_latency=1, is_clam_shell=clam)
            if rdimm:
                ps.set_rdimm(tck=2 / (2 * 4 * 200e6), rcd_pll_bypass=False, rcd_ca_cs_drive=0x5, rcd_odt_cke_drive=0x5, rcd_clk_drive=0x5)
            ts = TimingSettings(tRP=2, tRCD=2, tWR=3, tWTR=2, tREFI=780, tRFC=30, tFAW=None, tCCD=1, tRRD=None, tRC=8, tRAS=6, tZQCS=None)
            ts.fine_refresh_mode = "1x"
            seq, _mr = get_sdram_phy_init_sequence(ps, ts)
            c = get_sdram_phy_c_header(ps, ts, GeomSettings(bankbits=3, rowbits=14, colbits=10))
            body = c[c.index("static inline void init_sequence(void)"):]
            steps, cur = [], None
            for line in body.splitlines():
                line = line.strip()
                m1 = re.match(r"sdram_dfii_pi0_address_write\((0x[0-9a-fA-F]+)\);", line)
                m2 = re.match(r"sdram_dfii_pi0_baddress_write\((\d+)\);", line)
                m3 = re.match(r"(?:sdram_dfii_control_write|command_p0)\((.*)\);", line)
                if m1:
                    cur = [int(m1.group(1), 16), None, ""]
                    steps.append(cur)
                elif m2 and cur is not None:
                    cur[1] = int(m2.group(1))
                elif m3 and cur is not None:
                    cur[2] = m3.group(1)
            pos = 0
            for (_c, a, ba, cmd, _d) in seq:
                is_mr = "DFII_COMMAND_RAS|DFII_COMMAND_CAS|DFII_COMMAND_WE|DFII_COMMAND_CS" == cmd
                ncopy = (2 if (rdimm and ba != 7) else 1) * (2 if (clam and is_mr) else 1)
                grp = steps[pos:pos + ncopy]
                pos += ncopy
                if not is_mr or ba == 7:
                    continue
                n += 1
                views = []          # (population, what it latches)
                for (pa, pba, pcmd) in grp:
                    bottom = "CS_BOTTOM" in pcmd
                    for bside in ((False, True) if rdimm else (False,)):
                        va, vba = (pa, pba)
                        if bside:
                            va, vba = invert(va, vba)
                        if bottom:
                            va, vba = mirror(va, vba)
                        # a copy addresses the B side iff BG1 (bit 3 of ba as the device sees it) selects it
                        views.append((("bottom" if bottom else ("top" if clam else "all")) + ("-B" if bside else "-A"), va, vba))
                pops = sorted({v[0] for v in views})
                for pop in pops:
                    if not any(v[0] == pop and v[1] == a and v[2] == ba for v in views):
                        bad = bad or dict(cl=cl, cwl=cwl, clam_shell=clam, rdimm=rdimm, mode_register=ba, value=a, population=pop,
                                          copies=[(hex(x[0]), x[1], x[2]) for x in grp])
        oid = "C17/headers[DDR4,clam_shell=%s,rdimm=%s]/bounded/every_device_population_latches_the_generated_mode_registers@%d" % (clam, rdimm, n)
        r = {"id": oid, "kind": "bounded", "status": "failed" if bad else "bounded-ok", "seconds": round(time.time() - t0, 2),
             "backend": "cpython (execute + device-side model)", "depth": n}
        if bad:
            r.update(where=str(bad), reproduced=True, model=bad)
        res.append(r)
    return res


def header_task(cfg, tier):
    """both renderings describe the same sequence: execute the emitters and parse them back (bounded)"""
    t0 = time.time()
    from litedram.common import PhySettings, TimingSettings
    from litedram.init import get_sdram_phy_c_header, get_sdram_phy_py_header, get_sdram_phy_init_sequence
    cfgs = []
    for memtype, nph, cl, cwl in (("SDR", 1, 2, None), ("SDR", 2, 3, None), ("DDR", 2, 3, None), ("LPDDR", 2, 3, None),
                                  ("DDR2", 2, 5, 4), ("DDR3", 4, 6, 5), ("DDR3", 4, 7, 6), ("DDR3", 2, 6, 5), ("DDR3", 4, 11, 8),
                                  ("DDR4", 4, 9, 9), ("DDR4", 4, 11, 9), ("DDR4", 4, 16, 12)):
        for clam in ((False, True) if memtype == "DDR4" else (False,)):
            cfgs.append((memtype, nph, cl, cwl, clam))
    n, bad = 0, []
    for memtype, nph, cl, cwl, clam in cfgs:
        ps = PhySettings(phytype="verif", memtype=memtype, databits=16, dfi_databits=32, nphases=nph, rdphase=0, wrphase=1,
                         cl=cl, cwl=cwl, read_latency=5, write_latency=1, is_clam_shell=clam)
        ts = TimingSettings(tRP=2, tRCD=2, tWR=3, tWTR=2, tREFI=780, tRFC=30, tFAW=None, tCCD=1, tRRD=None, tRC=8, tRAS=6, tZQCS=None)
        ts.fine_refresh_mode = "1x"
        try:
            seq, _mr = get_sdram_phy_init_sequence(ps, ts)
            from litedram.common import GeomSettings
            c = get_sdram_phy_c_header(ps, ts, GeomSettings(bankbits=3, rowbits=14, colbits=10))
            py = get_sdram_phy_py_header(ps, ts)
        except Exception as e:  # noqa
            bad.append("%s nphases=%d cl=%s clam=%s: %s: %s" % (memtype, nph, cl, clam, type(e).__name__, e))
            continue
        n += 1
        ns = {}
        try:
            exec(py, {"__builtins__": {}}, ns)
        except Exception as e:  # noqa
            bad.append("%s: python header does not execute: %s" % (memtype, e))
            continue
        pyseq = [(e[1], e[2], e[3], e[4]) for e in ns["init_sequence"]]
        flag = {k.upper(): v for k, v in ns.items() if k.startswith("dfii_")}
        flag.update({"DFII_COMMAND_CS_TOP": 1 << 20, "DFII_COMMAND_CS_BOTTOM": 1 << 21})
        body = c[c.index("static inline void init_sequence(void)"):]
        steps, cur = [], None
        for line in body.splitlines():
            line = line.strip()
            m1 = re.match(r"sdram_dfii_pi0_address_write\((0x[0-9a-fA-F]+)\);", line)
            m2 = re.match(r"sdram_dfii_pi0_baddress_write\((\d+)\);", line)
            m3 = re.match(r"(?:sdram_dfii_control_write|command_p0)\((.*)\);", line)
            m4 = re.match(r"cdelay\((\d+)\);", line)
            if m1:
                cur = [int(m1.group(1), 16), None, None, 0]
                steps.append(cur)
            elif m2 and cur is not None:
                cur[1] = int(m2.group(1))
            elif m3 and cur is not None:
                v = 0
                for tok in m3.group(1).split("|"):
                    v |= flag[tok.strip()]
                cur[2] = v
            elif m4 and cur is not None:
                cur[3] = int(m4.group(1))
        cseq = [tuple(x) for x in steps]
        # python rendering must be the generated sequence
        want = []
        for (_c, a_, ba_, cmd_, d_) in seq:
            v = 0
            for tok in cmd_.split("|"):
                v |= flag[tok.strip()]
            want.append((int(a_), int(ba_), v, d_))
        if pyseq != want:
            bad.append("%s nphases=%d cl=%s: python header differs from the generated sequence" % (memtype, nph, cl))
        if cseq != pyseq:
            tag = "clam_shell" if clam else "plain"
            bad.append("%s nphases=%d cl=%s %s: C header (%d steps) and Python header (%d steps) describe different "
                       "sequences, first difference at step %d" % (
                           memtype, nph, cl, tag, len(cseq), len(pyseq),
                           next((i for i, (x, y) in enumerate(zip(cseq, pyseq)) if x != y), min(len(cseq), len(pyseq)))))
    out = []
    out += _device_view_results(t0)
    for tag in ("plain", "clam_shell"):
        mine = [b_ for b_ in bad if (" clam_shell:" in b_) == (tag == "clam_shell")]
        oid = "C17/headers[%s,enumerated_configs]/bounded/c_and_python_renderings_agree@%d" % (tag, n)
        if not mine:
            out.append({"id": oid, "kind": "bounded", "status": "bounded-ok", "seconds": round(time.time() - t0, 2),
                        "backend": "cpython (execute + parse back)", "depth": n})
        else:
            out.append({"id": oid, "kind": "bounded", "status": "failed", "seconds": round(time.time() - t0, 2),
                        "backend": "cpython (execute + parse back)", "where": mine[0], "reproduced": True})
    return finalize(out)


def finalize(res):
    for r in res:
        if r["status"] == "failed" and "replay" not in r:
            path = replay_path("C17", r["id"])
            rp = {"property": "C17", "obligation": r["id"], "module": "contracts.c17", "kind": "pyargs",
                  "args": r.get("model"), "where": r.get("where"), "native": r.get("native"),
                  "solver": {"name": r["backend"], "status": "obligation refuted", "model": r.get("model")},
                  "reproduced": bool(r.get("reproduced"))}
            if not r.get("reproduced") and r.get("model") and "write_recovery" in r["id"]:
                rp["reproduced"] = _replay_wr(r, rp)
            json.dump(rp, open(path, "w"), indent=1)
            r["replay"], r["reproduced"] = path, rp["reproduced"]
    return {"results": res}


def _num(s):
    from fractions import Fraction
    s = s.strip()
    if s.endswith("?"):
        s = s[:-1]
    return Fraction(s)


def _replay_wr(r, rp):
    """write-recovery counterexample replayed on the real generator with the model's timing, exact arithmetic"""
    from fractions import Fraction
    try:
        m = r["model"]
        n = int(_num(m["tWR_cyc"]))
        twtr = int(_num(m.get("tWTR_cyc", "1")))
        tck = _num(m["tck_ns"])
        memtype = "DDR3" if "ddr3" in r["id"] else ("DDR4" if "ddr4" in r["id"] else "DDR2")
        d = int(re.search(r"d=(\d)", r["id"]).group(1)) if "d=" in r["id"] else 2
        ps = _PS()
        ps.memtype, ps.nphases, ps.is_rdimm = memtype, d, False
        ps.cl, ps.cwl = {"DDR3": (6, 5), "DDR4": (9, 9), "DDR2": (5, 4)}[memtype]
        ts = _PS()
        ts.tWR, ts.tWTR, ts.fine_refresh_mode = n, twtr, "1x"
        fn = {"DDR3": INIT.get_ddr3_phy_init_sequence, "DDR4": INIT.get_ddr4_phy_init_sequence,
              "DDR2": INIT.get_ddr2_phy_init_sequence}[memtype]
        seq, _ = fn(ps, ts)
        mr0 = mode_registers(seq)[0][0]
        wr = {"DDR3": lambda: DDR3_WR[ibits(mr0, 11, 9)], "DDR4": lambda: DDR4_WR[ibits(mr0, 13, 13) * 8 + ibits(mr0, 11, 9)],
              "DDR2": lambda: ibits(mr0, 11, 9) + 1}[memtype]()
        covers = wr * tck >= 15
        within = wr <= n * d
        rp["native"] = {"timing.tWR": n, "timing.tWTR": twtr, "tck_ns": float(tck), "WR_programmed": wr,
                        "clocks_needed": float(Fraction(15) / tck), "controller_waits_clocks": n * d}
        return not (covers and within)
    except Exception as e:  # noqa
        rp["native_error"] = "%s: %s" % (type(e).__name__, e)
        return False


def replay(rp):
    print("replay %s: recorded %s" % (rp["obligation"], rp.get("native") or rp.get("where")))
    return 0


def ddr3_task(cfg, tier):
    return ddr34_task(dict(memtype="DDR3"), tier)


def ddr4_task(cfg, tier):
    return ddr34_task(dict(memtype="DDR4"), tier)


def tasks(tier):
    return [dict(kind="custom", fn="legacy_task", cfg={}), dict(kind="custom", fn="ddr3_task", cfg={}, weight=5),
            dict(kind="custom", fn="ddr4_task", cfg={}, weight=5), dict(kind="custom", fn="helpers_task", cfg={}),
            dict(kind="custom", fn="lpddr_task", cfg={}), dict(kind="custom", fn="header_task", cfg={})]
