"""C10 -- lemmas (unbounded) on the Wishbone burst up-converter (bus narrower than the port): merge buffer and read cache.
Real LiteDRAMWishbone2Native._init_burst_upconverter as elaborated; induction with a watched byte lane of the wide word."""
import z3
from .common import *
from vc.engine import Contract
from vc.shims import capture_locals
from litex.soc.interconnect import wishbone as wb
from litedram.frontend.wishbone import LiteDRAMWishbone2Native


class UpHarness(Module):
    def __init__(self, cfg):
        ww, pw = cfg["wb"], cfg["port"]
        aw_ = cfg.get("adr_width", 6)
        self.wbus = wb.Interface(data_width=ww, adr_width=aw_, addressing="word")
        self.port = LiteDRAMNativePort("both", aw_ - log2_int(pw // ww), pw)
        with capture_locals(LiteDRAMWishbone2Native._init_burst_upconverter) as cap:
            self.submodules.br = LiteDRAMWishbone2Native(self.wbus, self.port, base_address=cfg.get("base", 0))
        self.L = cap.calls["LiteDRAMWishbone2Native._init_burst_upconverter"][0]


def wb_merge_contract(cfg):
    """for every master behaviour (aborts at any cycle, any cti, any addresses / sel) and every port timing:
      * merge buffer: a byte lane of the pending native write is enabled iff an acknowledged write beat of this buffer
        generation selected it, and then holds that beat's byte; all merged beats target the buffered native address; lanes
        of chunks not merged are zero / disabled; an empty buffer is all-zero (the merge is an OR);
      * the native write hands over exactly that address / data / enables, then the buffer is emptied: every acknowledged
        write beat goes into exactly one native write;
      * no read of a word is issued or served from the cache while a write to that word is pending; an acknowledged write
        leaves no cached copy of its word; the cache holds the word the port returned for its address, and a cache hit returns
        the addressed lane of that word."""
    h = UpHarness(cfg)
    w, p, L = h.wbus, h.port, h.L
    ww, pw = cfg["wb"], cfg["port"]
    r = pw // ww
    rb = log2_int(r)
    nbw, nbp = ww // 8, pw // 8
    fsm = h.br.fsm
    free = [w.cyc, w.stb, w.we, w.adr, w.dat_w, w.sel, w.cti, w.bte, p.cmd.ready, p.wdata.ready, p.rdata.valid, p.rdata.data]
    c = Contract("Wishbone2Native.burst_upconverter", h, free, cfg=cfg)
    c.assume("stb_implies_cyc", lambda f: Implies(f.b(w.stb), f.b(w.cyc)))
    LB = max((nbp - 1).bit_length(), 1)
    lane = c.rigid("lane", LB)                       # watched byte lane of the wide word
    c.assume("watched_lane_in_range", lambda f: ULT(zext(lane, 8), BV(nbp, 8)))
    wr_valid, wr_addr, wr_data, wr_we, wr_sel = L["wr_valid"], L["wr_addr"], L["wr_data"], L["wr_we"], L["wr_sel"]
    chunk, wide_addr = L["chunk"], L["wide_addr"]
    rd_cache_valid, rd_cache_addr, rd_cache_data, rd_addr = L["rd_cache_valid"], L["rd_cache_addr"], L["rd_cache_data"], L["rd_addr"]

    def byte_of(bv, idx, nbytes):
        out = z3.Extract(7, 0, bv)
        for i in range(nbytes):
            out = If_(zext(idx, 8) == i, z3.Extract(8 * i + 7, 8 * i, bv), out)
        return out

    def bit_of(bv, idx, nbits):
        out = z3.Extract(0, 0, bv)
        for i in range(nbits):
            out = If_(zext(idx, 8) == i, z3.Extract(i, i, bv), out)
        return out
    lane_chunk = z3.Extract(LB - 1, LB - rb, lane) if nbw > 1 else lane      # chunk the watched lane belongs to
    if nbw > 1:
        lane_in = z3.Extract(LB - rb - 1, 0, lane)
    # kinds of acknowledge, by the state they are given in (exact by the structure of the FSM): a write beat taken into the
    # merge buffer (CMD, we), a read served from the cache (CMD, ~we), a read served by the port (READ_DATA)
    wack = lambda f: And(f.b(w.ack), f.b(w.we), state_is(f, fsm, "CMD"))
    hit = lambda f: And(wack(f), zext(f(chunk), 8) == zext(lane_chunk, 8))          # acked write beat covering the watched lane
    beat_en = lambda f: (bit_of(f(w.sel), lane_in, nbw) if nbw > 1 else f(w.sel)) == 1
    beat_byte = lambda f: byte_of(f(w.dat_w), lane_in, nbw) if nbw > 1 else f(w.dat_w)
    handed = lambda f: And(state_is(f, fsm, "WRITE_DATA"), f.b(p.wdata.ready))
    # ghosts: what the acknowledged beats of the current buffer generation wrote to the watched lane
    c.ghost("gen", "bool", False, lambda f: If_(handed(f), False, If_(hit(f), Or(f.g.gen, beat_en(f)), f.g.gen)))
    c.ghost("gval", 8, 0, lambda f: If_(handed(f), BV(0, 8), If_(hit(f), beat_byte(f), f.g.gval)))    # data byte of the (one) beat merged into the lane's chunk
    c.ghost("gcov", "bool", False, lambda f: If_(handed(f), False, If_(hit(f), True, f.g.gcov)))   # chunk of the lane merged
    c.ghost("gaddr", len(p.cmd.addr), 0, lambda f: If_(And(wack(f), Not(f.b(wr_valid))), f(wide_addr), f.g.gaddr))
    c.ghost("gany", "bool", False, lambda f: If_(handed(f), False, If_(wack(f), True, f.g.gany)))
    c.invariant("merge_buffer_holds_exactly_the_acknowledged_beats", lambda f: And(
        state_in_range(f, fsm),
        f.b(wr_valid) == f.g.gany,
        Implies(Not(f.b(wr_valid)), And(f(wr_we) == 0, f(wr_data) == 0, f(wr_sel) == 0)),
        Implies(f.b(wr_valid), f(wr_addr) == f.g.gaddr),
        (bit_of(f(wr_sel), lane_chunk, r) == 1) == f.g.gcov,
        (bit_of(f(wr_we), lane, nbp) == 1) == f.g.gen,
        byte_of(f(wr_data), lane, nbp) == f.g.gval,
        Implies(Not(f.g.gcov), And(Not(f.g.gen), f.g.gval == 0)),
        Implies(Or(state_is(f, fsm, "WRITE_DATA")), f.b(wr_valid))))
    c.ensures("acknowledged_write_beat_merges_only_into_the_buffered_word_and_a_free_chunk", lambda f: Implies(wack(f), And(
        state_is(f, fsm, "CMD"), Or(Not(f.b(wr_valid)), f(wide_addr) == f.g.gaddr),
        Implies(zext(f(chunk), 8) == zext(lane_chunk, 8), Not(f.g.gcov)))))
    c.ensures("native_write_hands_over_exactly_the_merged_beats", lambda f: And(
        Implies(And(f.b(p.cmd.valid), f.b(p.cmd.we)), And(state_is(f, fsm, "WRITE_CMD"), f(p.cmd.addr) == f.g.gaddr)),
        Implies(f.b(p.wdata.valid), And(state_is(f, fsm, "WRITE_DATA"),
                                        (bit_of(f(p.wdata.we), lane, nbp) == 1) == f.g.gen,
                                        Implies(f.g.gen, byte_of(f(p.wdata.data), lane, nbp) == f.g.gval)))))
    # read side
    rack = lambda f: And(f.b(w.ack), Not(wack(f)))
    fill = lambda f: And(state_is(f, fsm, "READ_DATA"), f.b(p.rdata.valid))
    c.ghost("gcache", pw, 0, lambda f: If_(fill(f), f(p.rdata.data), f.g.gcache))
    c.ghost("gcaddr", len(p.cmd.addr), 0, lambda f: If_(fill(f), f(rd_addr), f.g.gcaddr))
    # stated at the level of the property (a stricter discipline -- no read at all while a write is pending -- is what the
    # code does today, but the property only forbids serving the word that has a write pending)
    c.invariant("read_cache_holds_the_returned_word_and_never_the_word_with_a_pending_write", lambda f: Implies(f.b(rd_cache_valid), And(
        Or(Not(f.b(wr_valid)), f(rd_cache_addr) != f(wr_addr)), f(rd_cache_data) == f.g.gcache, f(rd_cache_addr) == f.g.gcaddr)))
    c.invariant("no_read_of_the_word_with_a_pending_write_in_progress", lambda f: Implies(
        And(Or(state_is(f, fsm, "READ_CMD"), state_is(f, fsm, "READ_DATA")), f.b(wr_valid)), f(rd_addr) != f(wr_addr)))
    c.ensures("acknowledge_only_in_the_command_state_or_with_returned_read_data", lambda f: Implies(f.b(w.ack), Or(
        state_is(f, fsm, "CMD"), And(state_is(f, fsm, "READ_DATA"), f.b(p.rdata.valid)))))
    c.ensures("an_acknowledged_write_leaves_no_cached_copy_of_its_word", lambda f: Implies(wack(f), Or(
        f.nx(rd_cache_valid) == 0, f.nx(rd_cache_addr) != f(wide_addr))))
    c.ensures("reads_are_served_only_with_no_write_pending_from_the_port_or_the_matching_cached_word", lambda f: And(
        Implies(And(f.b(p.cmd.valid), Not(f.b(p.cmd.we))), And(state_is(f, fsm, "READ_CMD"), f(p.cmd.addr) == f(rd_addr),
                                                               Or(Not(f.b(wr_valid)), f(rd_addr) != f.g.gaddr))),
        Implies(And(rack(f), state_is(f, fsm, "CMD")), And(
            f.b(rd_cache_valid), f(wide_addr) == f.g.gcaddr, Or(Not(f.b(wr_valid)), f(wide_addr) != f.g.gaddr),
            f(w.dat_r) == _chunk_of(f.g.gcache, f(chunk), r, ww))),
        Implies(And(rack(f), Not(state_is(f, fsm, "CMD"))), And(
            state_is(f, fsm, "READ_DATA"), f.b(p.rdata.valid),
            f(w.dat_r) == _chunk_of(f(p.rdata.data), f(L["rd_chunk"]), r, ww)))))
    c.cover("two_beats_merged_and_handed_over", lambda f: And(handed(f), f(wr_sel) == 2 ** r - 1, f.g.gen, f.g.gval != 0), within=r + 6)
    c.cover("a_cache_hit_is_acknowledged", lambda f: And(rack(f), state_is(f, fsm, "CMD")), within=10)
    return c


def _chunk_of(wide, idx, r, ww):
    out = z3.Extract(ww - 1, 0, wide)
    for i in range(r):
        out = If_(zext(idx, 8) == i, z3.Extract((i + 1) * ww - 1, i * ww, wide), out)
    return out
