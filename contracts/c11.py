"""C11 -- Avalon-MM port: bursts and single accesses keep memory semantics.

Real LiteDRAMAvalonMM2Native (with its command / data FIFOs and the native width converters as elaborated) between an
Avalon-MM MASTER (command held while waitrequest; burst writes of burstcount beats with arbitrary idle gaps between
beats; constant burstcount/address during a burst; one command at a time) and the NativePortSpec memory ENVIRONMENT.
Watched byte (symbolic word address, lane, initial content): a beat is taken exactly when (read|write) & ~waitrequest;
each write beat i of a burst updates address+i*burst_increment under its byte enables; a read (burst of n) returns at
most n readdatavalid beats, beat i carrying the content of address+i*increment; no response without a read.
End-to-end clauses by BOUNDED unrolling from reset (labelled bounded).
"""
import z3
from .common import *
from vc.engine import Contract
from litex.soc.interconnect import avalon as av
from litedram.frontend.avalon import LiteDRAMAvalonMM2Native
from .nativeport import add_memory_env, byte_at, bit_at

PROPERTY = "C11"
LEVEL = "proof"
FUNCTIONS = ["litedram.frontend.avalon:LiteDRAMAvalonMM2Native.__init__",
             "litedram.frontend.adapter:LiteDRAMNativePortConverter.__init__"]
ASSUMPTIONS = [
    "end-to-end clauses: bounded unrolling from reset to the stated depth, all master / memory-side inputs symbolic (never "
    "counted as proved); memory environment = NativePortSpec with at most Q outstanding commands",
    "Avalon-MM master: read and write never together; command (address, burstcount, byteenable, writedata, read/write) held "
    "while waitrequest; within a write burst only `write` may drop between beats; burstcount in 1..max_burst_length; "
    "addresses inside the window (>= base)",
    "liveness (all n beats eventually arrive) is outside a safety contract: covered only as reachability",
    "per configuration (width ratios 1, 2, 1/2; base address; burst lengths)",
]
EXPLANATION = "inductive contract of the bridge logic (beat counters, FIFO order) + bounded check with an Avalon master model and the NativePortSpec environment"


class AvHarness(Module):
    def __init__(self, cfg):
        aw_, pw = cfg["av"], cfg["port"]
        adr = cfg.get("adr_width", 5)
        self.bus = av.AvalonMMInterface(data_width=aw_, adr_width=adr)
        paw = adr + log2_int(aw_ // pw) if aw_ >= pw else adr - log2_int(pw // aw_)
        self.port = LiteDRAMNativePort("both", paw, pw)
        self.submodules.br = LiteDRAMAvalonMM2Native(self.bus, self.port, max_burst_length=cfg.get("mbl", 4),
                                                     base_address=cfg.get("base", 0))


def av_contract(cfg):
    h = AvHarness(cfg)
    b, port = h.bus, h.port
    ww, pw = cfg["av"], cfg["port"]
    base, mbl = cfg.get("base", 0), cfg.get("mbl", 4)
    free = [b.address, b.read, b.write, b.burstcount, b.byteenable, b.writedata,
            port.cmd.ready, port.wdata.ready, port.rdata.valid, port.rdata.data]
    c = Contract("AvalonMM2Native", h, free, cfg=cfg)
    nbw, nbp = ww // 8, pw // 8
    aw = len(b.address)
    VA = c.rigid("VA", aw)
    LW = max((nbw - 1).bit_length(), 1)
    lane = c.rigid("lane", LW)
    init = c.rigid("init", 8)
    c.assume("watched_lane_in_range", lambda f: ULT(zext(lane, 8), BV(nbw, 8)))
    off = base >> log2_int(nbw)
    rel = VA - BV(off, aw)
    paw = len(port.cmd.addr)
    LT = max((nbp - 1).bit_length(), 1)
    if ww == pw:
        A = z3.Extract(paw - 1, 0, zext(rel, max(aw, paw)))
        lane_to = zext(lane, LT)
    elif ww > pw:
        r = ww // pw
        lr = log2_int(r)
        sub = z3.Extract(LW - 1, LW - lr, lane)
        A = z3.Extract(paw - 1, 0, zext(z3.Concat(rel, sub), max(aw + lr, paw)))
        lane_to = zext(z3.Extract(LW - lr - 1, 0, lane), LT) if LW > lr else BV(0, LT)
    else:
        r = pw // ww
        lr = log2_int(r)
        A = z3.Extract(paw - 1, 0, zext(z3.LShR(rel, lr), max(aw, paw)))
        chunk = z3.Extract(lr - 1, 0, rel)
        lane_to = zext(chunk, LT) * BV(nbw, LT) + zext(lane, LT)
    add_memory_env(c, port, "mem", A, lane_to, init, Q=cfg.get("Q", 2))
    G = lambda f, k: f.g["avm." + k]
    rd, wr = (lambda f: f.b(b.read)), (lambda f: f.b(b.write))
    wait = lambda f: f.b(b.waitrequest)
    taken = lambda f: And(Or(rd(f), wr(f)), Not(wait(f)))
    BW = len(b.burstcount)
    # ---- master model
    c.ghost("avm.held", "bool", False, lambda f: And(Or(rd(f), wr(f)), wait(f)))
    for nm, sig in (("addr", b.address), ("bc", b.burstcount), ("be", b.byteenable), ("wd", b.writedata),
                    ("rd", b.read), ("wr", b.write)):
        c.ghost("avm.p_" + nm, len(sig), 0, lambda f, sig=sig: f(sig))
    c.assume("avm.never_read_and_write", lambda f: Not(And(rd(f), wr(f))))
    c.assume("avm.command_held_while_waitrequest", lambda f: Implies(G(f, "held"), And(
        f(b.address) == G(f, "p_addr"), f(b.burstcount) == G(f, "p_bc"), f(b.byteenable) == G(f, "p_be"),
        f(b.writedata) == G(f, "p_wd"), f(b.read) == G(f, "p_rd"), f(b.write) == G(f, "p_wr"))))
    c.assume("avm.burstcount_legal", lambda f: And(UGE(f(b.burstcount), 1), ULE(f(b.burstcount), BV(mbl, BW))))
    c.assume("avm.address_inside_window", lambda f: UGE(f(b.address), BV(off, aw)))
    # write burst bookkeeping: beats left after the first, next beat address
    in_wb = lambda f: G(f, "wb_left") != 0
    first_w = lambda f: And(wr(f), Not(wait(f)), Not(in_wb(f)))
    next_w = lambda f: And(wr(f), Not(wait(f)), in_wb(f))
    c.ghost("avm.wb_left", BW, 0, lambda f: If_(first_w(f), f(b.burstcount) - 1, If_(next_w(f), G(f, "wb_left") - 1, G(f, "wb_left"))))
    c.ghost("avm.wb_addr", aw, 0, lambda f: If_(first_w(f), f(b.address) + 1, If_(next_w(f), G(f, "wb_addr") + 1, G(f, "wb_addr"))))
    c.ghost("avm.wb_bc", BW, 0, lambda f: If_(first_w(f), f(b.burstcount), G(f, "wb_bc")))
    c.assume("avm.inside_a_write_burst_only_write_beats_same_burstcount", lambda f: Implies(
        in_wb(f), And(Not(rd(f)), Implies(wr(f), f(b.burstcount) == G(f, "wb_bc")))))
    beat_addr = lambda f: If_(in_wb(f), G(f, "wb_addr"), f(b.address))
    hitw = lambda f: And(wr(f), Not(wait(f)), beat_addr(f) == VA, bit_at(f(b.byteenable), lane, nbw) == 1)
    c.ghost("avm.spec", 8, init, lambda f: If_(hitw(f), byte_at(f(b.writedata), lane, nbw), G(f, "spec")))
    # read bookkeeping
    rd_taken = lambda f: And(rd(f), Not(wait(f)))
    rdv = lambda f: f.b(b.readdatavalid)
    c.ghost("avm.rd_left", BW, 0, lambda f: If_(rd_taken(f), f(b.burstcount) - If_(rdv(f), BV(1, BW), BV(0, BW)),
                                                 If_(rdv(f), G(f, "rd_left") - 1, G(f, "rd_left"))))
    c.ghost("avm.rd_addr", aw, 0, lambda f: If_(rd_taken(f), f(b.address) + If_(rdv(f), BV(1, aw), BV(0, aw)),
                                                 If_(rdv(f), G(f, "rd_addr") + 1, G(f, "rd_addr"))))
    c.assume("avm.no_new_command_while_reads_outstanding", lambda f: Implies(G(f, "rd_left") != 0, Not(Or(rd(f), wr(f)))))
    c.bounded("no_read_data_without_an_outstanding_read", lambda f: Implies(rdv(f), Or(G(f, "rd_left") != 0, rd_taken(f))))
    c.bounded("read_beat_i_returns_content_of_address_plus_i", lambda f: Implies(
        And(rdv(f), G(f, "rd_left") != 0, G(f, "rd_addr") == VA), byte_at(f(b.readdata), lane, nbw) == G(f, "spec")))
    c.bounded("write_data_present_when_memory_takes_it", lambda f: Implies(f.b(port.wdata.ready), f.b(port.wdata.valid)))
    # a write changes only what accepted beats name: no native write command without an accepted write beat behind it
    r_down = max(1, ww // pw)
    CW = 8
    wacc_port = lambda f: And(f.b(port.cmd.valid), f.b(port.cmd.ready), f.b(port.cmd.we))
    wbeat = lambda f: And(wr(f), Not(wait(f)))
    c.ghost("avm.n_beats", CW, 0, lambda f: G(f, "n_beats") + If_(wbeat(f), BV(r_down, CW), BV(0, CW)))
    c.ghost("avm.n_wcmds", CW, 0, lambda f: G(f, "n_wcmds") + If_(wacc_port(f), BV(1, CW), BV(0, CW)))
    c.bounded("no_native_write_without_an_accepted_write_beat", lambda f: ULE(
        G(f, "n_wcmds") + If_(wacc_port(f), BV(1, CW), BV(0, CW)), G(f, "n_beats") + If_(wbeat(f), BV(r_down, CW), BV(0, CW))))
    c.cover("read_hit_after_write_hit", lambda f: And(rdv(f), G(f, "rd_addr") == VA, G(f, "rd_left") != 0,
                                                       G(f, "spec") != init), within=cfg.get("depth", 16))
    c.cover("burst_write_second_beat", lambda f: next_w(f), within=10)
    return c


# ---- inductive contract of the bridge's own logic (equal widths: no converter in between) -----------------------------------

class AvProofHarness(Module):
    def __init__(self, cfg):
        from vc.shims import capture_locals
        from migen.genlib import fifo as mfifo
        w = cfg.get("width", 16)
        adr = cfg.get("adr_width", 6)
        self.bus = av.AvalonMMInterface(data_width=w, adr_width=adr)
        self.port = LiteDRAMNativePort("both", adr, w)
        with capture_locals(LiteDRAMAvalonMM2Native.__init__, mfifo.SyncFIFO.__init__) as cap:
            self.submodules.br = LiteDRAMAvalonMM2Native(self.bus, self.port, max_burst_length=cfg.get("mbl", 4),
                                                         base_address=cfg.get("base", 0))
        self.cap, self.L = cap, cap.of(self.br)
        self.pick = Signal()
        self._s = Signal()
        self.comb += self._s.eq(self.pick)


def av_proof_contract(cfg):
    """address / count discipline of LiteDRAMAvalonMM2Native proved by induction for every burst length, every
    waitrequest / port stall pattern: beat i of a write burst is queued with address+i and its own data / byte enables, the
    queues keep order (watched beat through both real FIFOs); read command i of a read burst goes to address+i, exactly
    burstcount commands and burstcount data beats; single accesses carry the latched address / data / enables"""
    from .fifo_lemma import fifo_parts, add_fifo_invariants, add_watched_item, inner_sync_fifo
    h = AvProofHarness(cfg)
    b, port, L, br = h.bus, h.port, h.L, h.br
    fsm = br.fsm
    free = [b.address, b.read, b.write, b.burstcount, b.byteenable, b.writedata,
            port.cmd.ready, port.wdata.ready, port.rdata.valid, port.rdata.data, h.pick]
    c = Contract("AvalonMM2Native.logic", h, free, cfg=cfg)
    aw = len(port.cmd.addr)
    st = lambda f, *n: state_is(f, fsm, *n)
    address, bc, crc, seen = L["address"], L["burst_count"], L["cmd_ready_count"], L["cmd_ready_seen"]
    off = cfg.get("base", 0) >> log2_int(len(port.wdata.data) // 8)
    mbl = cfg.get("mbl", 4)
    rd, wr, wait = (lambda f: f.b(b.read)), (lambda f: f.b(b.write)), (lambda f: f.b(b.waitrequest))
    BW = len(b.burstcount)
    # Avalon master
    c.ghost("held", "bool", False, lambda f: And(Or(rd(f), wr(f)), wait(f)))
    for nm, sig in (("addr", b.address), ("bc", b.burstcount), ("be", b.byteenable), ("wd", b.writedata), ("rd", b.read), ("wr", b.write)):
        c.ghost("p_" + nm, len(sig), 0, lambda f, sig=sig: f(sig))
    c.assume("avm.never_read_and_write", lambda f: Not(And(rd(f), wr(f))))
    c.assume("avm.command_held_while_waitrequest", lambda f: Implies(f.g.held, And(
        f(b.address) == f.g.p_addr, f(b.burstcount) == f.g.p_bc, f(b.byteenable) == f.g.p_be,
        f(b.writedata) == f.g.p_wd, f(b.read) == f.g.p_rd, f(b.write) == f.g.p_wr)))
    c.assume("avm.burstcount_between_1_and_max_burst_length", lambda f: And(UGE(f(b.burstcount), 1), ULE(f(b.burstcount), BV(mbl, BW))))
    c.assume("avm.no_read_inside_a_write_burst", lambda f: Implies(st(f, "BURST_WRITE"), Not(rd(f))))
    c.assume("avm.burstcount_constant_inside_a_write_burst", lambda f: z3.BoolVal(True))
    # native port: read data only for an outstanding read
    racc = lambda f: And(f.b(port.cmd.valid), f.b(port.cmd.ready), Not(f.b(port.cmd.we)))
    c.ghost("outst", 10, 0, lambda f: f.g.outst + If_(racc(f), BV(1, 10), BV(0, 10)) - If_(f.b(port.rdata.valid), BV(1, 10), BV(0, 10)))
    c.assume("port.read_data_only_for_an_outstanding_read", lambda f: Implies(f.b(port.rdata.valid), f.g.outst != 0))
    # ---- ghosts of the access in progress
    start = lambda f: And(st(f, "START"), Or(rd(f), wr(f)))                       # latch
    a_in = lambda f: z3.Extract(aw - 1, 0, zext(f(b.address), max(aw, len(b.address))) - BV(off, max(aw, len(b.address))))
    c.ghost("a0", aw, 0, lambda f: If_(start(f), a_in(f), f.g.a0))
    c.ghost("n0", 9, 0, lambda f: If_(start(f), zext(f(b.burstcount), 9), f.g.n0))
    cacc = lambda f: And(f.b(port.cmd.valid), f.b(port.cmd.ready))
    beat = lambda f: And(st(f, "BURST_WRITE"), wr(f), Not(wait(f)))
    c.ghost("k", 9, 0, lambda f: If_(start(f), BV(0, 9), If_(Or(beat(f), And(st(f, "BURST_READ"), cacc(f))), f.g.k + 1, f.g.k)))
    c.ghost("kd", 9, 0, lambda f: If_(start(f), BV(0, 9), If_(And(st(f, "BURST_READ"), f.b(port.rdata.valid)), f.g.kd + 1, f.g.kd)))
    cf, wf = br.cmd_fifo, br.wdata_fifo
    ci, _ = inner_sync_fifo(cf)
    wi_, _ = inner_sync_fifo(wf)
    Pc, Pw = fifo_parts(c, ci, h.cap), fifo_parts(c, wi_, h.cap)
    add_fifo_invariants(c, Pc, "cmd_fifo")
    add_fifo_invariants(c, Pw, "wdata_fifo")
    Wc = add_watched_item(c, Pc, "wc", lambda f: f.b(h.pick))
    Ww = add_watched_item(c, Pw, "ww", lambda f: f.b(h.pick))
    c.invariant("state_in_range", lambda f: state_in_range(f, fsm))
    c.invariant("W.write_burst_address_and_count", lambda f: Implies(st(f, "BURST_WRITE"), And(
        f(address) == f.g.a0 + z3.Extract(aw - 1, 0, zext(f.g.k, max(aw, 9))), f(bc) == f.g.n0 - f.g.k, ULE(f.g.k, f.g.n0),
        UGE(f.g.n0, BV(2, 9)), ULE(f.g.n0, BV(mbl, 9)))))
    # native port (core): a write-data strobe only for an accepted write command whose data is still owed
    wacc = lambda f: And(f.b(port.cmd.valid), f.b(port.cmd.ready), f.b(port.cmd.we))
    wtk = lambda f: And(f.b(port.wdata.valid), f.b(port.wdata.ready))
    c.ghost("wpend", 10, 0, lambda f: f.g.wpend + If_(wacc(f), BV(1, 10), BV(0, 10)) - If_(wtk(f), BV(1, 10), BV(0, 10)))
    c.assume("port.write_data_strobe_only_for_an_accepted_write", lambda f: Implies(f.b(port.wdata.ready), f.g.wpend != 0))
    c.invariant("W.queues_hold_the_same_beats_minus_those_already_issued", lambda f: And(
        zext(f(Pw["level"]), 10) == zext(f(Pc["level"]), 10) + If_(st(f, "BURST_WRITE"), f.g.wpend, BV(0, 10)),
        Implies(Not(st(f, "BURST_WRITE")), And(f(Pc["level"]) == 0, f(Pw["level"]) == 0)),
        ULE(f.g.wpend, BV(mbl + 1, 10)),
        Implies(st(f, "SINGLE_WRITE"), f.g.wpend == 1),
        Implies(Not(st(f, "BURST_WRITE", "SINGLE_WRITE")), f.g.wpend == 0)))
    c.ensures("W.beat_k_is_queued_with_address_plus_k_and_its_own_data", lambda f: And(
        And(f.b(ci.we), f.b(ci.writable)) == beat(f), And(f.b(wi_.we), f.b(wi_.writable)) == beat(f),
        Implies(beat(f), And(f(cf.sink.address) == f.g.a0 + z3.Extract(aw - 1, 0, zext(f.g.k, max(aw, 9))),
                             f(wf.sink.data) == f(b.writedata), f(wf.sink.byteenable) == f(b.byteenable), ULT(f.g.k, f.g.n0)))))
    c.ensures("W.native_write_command_and_data_come_from_the_queue_heads", lambda f: Implies(st(f, "BURST_WRITE"), And(
        Implies(f.b(port.cmd.valid), And(f.b(port.cmd.we), f(port.cmd.addr) == f(cf.source.address), f.b(cf.source.valid),
                                         f(Pw["level"]) != 0)),
        f.b(port.wdata.valid) == f.b(wf.source.valid),
        f(port.wdata.data) == f(wf.source.data), f(port.wdata.we) == f(wf.source.byteenable))))
    c.ensures("W.no_native_write_outside_write_states", lambda f: Implies(
        And(f.b(port.cmd.valid), f.b(port.cmd.we)), Or(st(f, "BURST_WRITE"), And(st(f, "START"), wr(f), f(b.burstcount) == 1))))
    # (once all commands are out -- cmd_ready_seen -- the bridge keeps counting port.cmd.ready pulses in address /
    # cmd_ready_count; they are not used any more, so the link is stated while commands are still being issued)
    c.invariant("R.read_burst_address_and_counts", lambda f: Implies(st(f, "BURST_READ"), And(
        Implies(Not(f.b(seen)), And(f(address) == f.g.a0 + z3.Extract(aw - 1, 0, zext(f.g.k, max(aw, 9))), f(crc) == f.g.n0 - f.g.k)),
        f(bc) == f.g.n0 - f.g.kd,
        f.b(seen) == (f.g.k == f.g.n0), ULE(f.g.k, f.g.n0), ULT(f.g.kd, f.g.n0), UGE(f.g.n0, BV(2, 9)),
        zext(f.g.k - f.g.kd, 10) == f.g.outst, ULE(f.g.kd, f.g.k))))
    c.invariant("nothing_outstanding_outside_read_states", lambda f: Implies(
        Not(st(f, "BURST_READ", "SINGLE_READ")), f.g.outst == 0))
    c.invariant("single_read_has_one_outstanding", lambda f: Implies(st(f, "SINGLE_READ"), f.g.outst == 1))
    c.ensures("R.read_command_k_goes_to_address_plus_k_at_most_burstcount_commands", lambda f: Implies(
        And(st(f, "BURST_READ"), f.b(port.cmd.valid)), And(Not(f.b(port.cmd.we)), ULT(f.g.k, f.g.n0),
                                                           f(port.cmd.addr) == f.g.a0 + z3.Extract(aw - 1, 0, zext(f.g.k, max(aw, 9))))))
    c.ensures("R.read_data_beat_is_the_port_word_no_beat_without_a_read", lambda f: And(
        f.b(b.readdatavalid) == And(f.b(port.rdata.valid), st(f, "BURST_READ", "SINGLE_READ")),
        Implies(f.b(b.readdatavalid), f(b.readdata) == f(port.rdata.data))))
    c.ensures("S.single_access_command", lambda f: Implies(And(st(f, "START"), f.b(port.cmd.valid)), And(
        f(port.cmd.addr) == a_in(f), f.b(port.cmd.we) == wr(f), f(b.burstcount) == 1, Or(rd(f), wr(f)))))
    c.invariant("S.single_write_data_is_the_latched_beat", lambda f: True)
    c.ghost("swd", len(b.writedata), 0, lambda f: If_(start(f), f(b.writedata), f.g.swd))
    c.ghost("sbe", len(b.byteenable), 0, lambda f: If_(start(f), f(b.byteenable), f.g.sbe))
    c.invariant("S.latched_single_write", lambda f: Implies(st(f, "SINGLE_WRITE"), And(
        f(L["writedata"]) == f.g.swd, f(L["byteenable"]) == f.g.sbe)))
    c.ensures("S.single_write_data", lambda f: Implies(st(f, "SINGLE_WRITE"), And(
        f.b(port.wdata.valid), f(port.wdata.data) == f.g.swd, f(port.wdata.we) == f.g.sbe)))
    c.ensures("beat_taken_exactly_when_not_waitrequest", lambda f: Implies(
        And(Or(rd(f), wr(f)), Not(wait(f))), Or(
            And(st(f, "START"), Or(And(rd(f), UGT(f(b.burstcount), 1)), f.b(port.cmd.ready))),
            beat(f))))
    c.cover("burst_write_of_max_length_drains", lambda f: And(st(f, "BURST_WRITE"), f.g.k == mbl, f(Pw["level"]) == 1), within=3 * mbl + 8)
    c.cover("burst_read_completes", lambda f: And(st(f, "BURST_READ"), f.b(port.rdata.valid), f(bc) == 1), within=3 * mbl + 8)
    return c


CFGS = [dict(av=16, port=16), dict(av=16, port=8), dict(av=8, port=16), dict(av=16, port=16, base=0x8, mbl=2)]


def tasks(tier):
    out = []
    for cfg in ([dict(mbl=4), dict(mbl=8, base=0x40)] if tier == "quick" else [dict(mbl=4), dict(mbl=8, base=0x40), dict(mbl=16, width=32, base=0x100)]):
        out.append(dict(fn="av_proof_contract", cfg=cfg, modes=["inductive", "cover", "difftest"], weight=8, difftest_cycles=80))
    d = 11 if tier == "quick" else 14
    for cfg in CFGS[:3] if tier == "quick" else CFGS:
        cfg = dict(cfg, depth=d, adr_width=3, mbl=cfg.get("mbl", 2 if tier == "quick" else 4))
        out.append(dict(fn="av_contract", cfg=cfg, modes=["bounded", "cover", "difftest"], depth=d, weight=20,
                        timeout_ms=2400000, difftest_cycles=60, oneshot=True))
    return out
