"""C11 -- Avalon-MM port: bursts and single accesses keep memory semantics.

Real LiteDRAMAvalonMM2Native (with its command / data FIFOs and the native width converters as elaborated) between an
Avalon-MM MASTER (command held while waitrequest; burst writes of burstcount beats with arbitrary idle gaps between
beats; constant burstcount/address during a burst; one command at a time) and the NativePortSpec memory ENVIRONMENT.
Watched byte (symbolic word address, lane, initial content): a beat is taken exactly when (read|write) & ~waitrequest;
each write beat i of a burst updates address+i*burst_increment under its byte enables; a read (burst of n) returns at
most n readdatavalid beats, beat i carrying the content of address+i*increment; no response without a read.
End-to-end clauses by BOUNDED unrolling from reset (labelled bounded).
"""
import z3
from .common import *
from vc.engine import Contract
from litex.soc.interconnect import avalon as av
from litedram.frontend.avalon import LiteDRAMAvalonMM2Native
from .nativeport import add_memory_env, byte_at, bit_at

PROPERTY = "C11"
LEVEL = "other"
FUNCTIONS = ["litedram.frontend.avalon:LiteDRAMAvalonMM2Native.__init__",
             "litedram.frontend.adapter:LiteDRAMNativePortConverter.__init__"]
ASSUMPTIONS = [
    "end-to-end clauses: bounded unrolling from reset to the stated depth, all master / memory-side inputs symbolic (never "
    "counted as proved); memory environment = NativePortSpec with at most Q outstanding commands",
    "Avalon-MM master: read and write never together; command (address, burstcount, byteenable, writedata, read/write) held "
    "while waitrequest; within a write burst only `write` may drop between beats; burstcount in 1..max_burst_length; "
    "addresses inside the window (>= base)",
    "liveness (all n beats eventually arrive) is outside a safety contract: covered only as reachability",
    "per configuration (width ratios 1, 2, 1/2; base address; burst lengths)",
]
EXPLANATION = "bounded contract check on the real bridge with an Avalon master model and the NativePortSpec environment"


class AvHarness(Module):
    def __init__(self, cfg):
        aw_, pw = cfg["av"], cfg["port"]
        adr = cfg.get("adr_width", 5)
        self.bus = av.AvalonMMInterface(data_width=aw_, adr_width=adr)
        paw = adr + log2_int(aw_ // pw) if aw_ >= pw else adr - log2_int(pw // aw_)
        self.port = LiteDRAMNativePort("both", paw, pw)
        self.submodules.br = LiteDRAMAvalonMM2Native(self.bus, self.port, max_burst_length=cfg.get("mbl", 4),
                                                     base_address=cfg.get("base", 0))


def av_contract(cfg):
    h = AvHarness(cfg)
    b, port = h.bus, h.port
    ww, pw = cfg["av"], cfg["port"]
    base, mbl = cfg.get("base", 0), cfg.get("mbl", 4)
    free = [b.address, b.read, b.write, b.burstcount, b.byteenable, b.writedata,
            port.cmd.ready, port.wdata.ready, port.rdata.valid, port.rdata.data]
    c = Contract("AvalonMM2Native", h, free, cfg=cfg)
    nbw, nbp = ww // 8, pw // 8
    aw = len(b.address)
    VA = c.rigid("VA", aw)
    LW = max((nbw - 1).bit_length(), 1)
    lane = c.rigid("lane", LW)
    init = c.rigid("init", 8)
    c.assume("watched_lane_in_range", lambda f: ULT(zext(lane, 8), BV(nbw, 8)))
    off = base >> log2_int(nbw)
    rel = VA - BV(off, aw)
    paw = len(port.cmd.addr)
    LT = max((nbp - 1).bit_length(), 1)
    if ww == pw:
        A = z3.Extract(paw - 1, 0, zext(rel, max(aw, paw)))
        lane_to = zext(lane, LT)
    elif ww > pw:
        r = ww // pw
        lr = log2_int(r)
        sub = z3.Extract(LW - 1, LW - lr, lane)
        A = z3.Extract(paw - 1, 0, zext(z3.Concat(rel, sub), max(aw + lr, paw)))
        lane_to = zext(z3.Extract(LW - lr - 1, 0, lane), LT) if LW > lr else BV(0, LT)
    else:
        r = pw // ww
        lr = log2_int(r)
        A = z3.Extract(paw - 1, 0, zext(z3.LShR(rel, lr), max(aw, paw)))
        chunk = z3.Extract(lr - 1, 0, rel)
        lane_to = zext(chunk, LT) * BV(nbw, LT) + zext(lane, LT)
    add_memory_env(c, port, "mem", A, lane_to, init, Q=cfg.get("Q", 2))
    G = lambda f, k: f.g["avm." + k]
    rd, wr = (lambda f: f.b(b.read)), (lambda f: f.b(b.write))
    wait = lambda f: f.b(b.waitrequest)
    taken = lambda f: And(Or(rd(f), wr(f)), Not(wait(f)))
    BW = len(b.burstcount)
    # ---- master model
    c.ghost("avm.held", "bool", False, lambda f: And(Or(rd(f), wr(f)), wait(f)))
    for nm, sig in (("addr", b.address), ("bc", b.burstcount), ("be", b.byteenable), ("wd", b.writedata),
                    ("rd", b.read), ("wr", b.write)):
        c.ghost("avm.p_" + nm, len(sig), 0, lambda f, sig=sig: f(sig))
    c.assume("avm.never_read_and_write", lambda f: Not(And(rd(f), wr(f))))
    c.assume("avm.command_held_while_waitrequest", lambda f: Implies(G(f, "held"), And(
        f(b.address) == G(f, "p_addr"), f(b.burstcount) == G(f, "p_bc"), f(b.byteenable) == G(f, "p_be"),
        f(b.writedata) == G(f, "p_wd"), f(b.read) == G(f, "p_rd"), f(b.write) == G(f, "p_wr"))))
    c.assume("avm.burstcount_legal", lambda f: And(UGE(f(b.burstcount), 1), ULE(f(b.burstcount), BV(mbl, BW))))
    c.assume("avm.address_inside_window", lambda f: UGE(f(b.address), BV(off, aw)))
    # write burst bookkeeping: beats left after the first, next beat address
    in_wb = lambda f: G(f, "wb_left") != 0
    first_w = lambda f: And(wr(f), Not(wait(f)), Not(in_wb(f)))
    next_w = lambda f: And(wr(f), Not(wait(f)), in_wb(f))
    c.ghost("avm.wb_left", BW, 0, lambda f: If_(first_w(f), f(b.burstcount) - 1, If_(next_w(f), G(f, "wb_left") - 1, G(f, "wb_left"))))
    c.ghost("avm.wb_addr", aw, 0, lambda f: If_(first_w(f), f(b.address) + 1, If_(next_w(f), G(f, "wb_addr") + 1, G(f, "wb_addr"))))
    c.ghost("avm.wb_bc", BW, 0, lambda f: If_(first_w(f), f(b.burstcount), G(f, "wb_bc")))
    c.assume("avm.inside_a_write_burst_only_write_beats_same_burstcount", lambda f: Implies(
        in_wb(f), And(Not(rd(f)), Implies(wr(f), f(b.burstcount) == G(f, "wb_bc")))))
    beat_addr = lambda f: If_(in_wb(f), G(f, "wb_addr"), f(b.address))
    hitw = lambda f: And(wr(f), Not(wait(f)), beat_addr(f) == VA, bit_at(f(b.byteenable), lane, nbw) == 1)
    c.ghost("avm.spec", 8, init, lambda f: If_(hitw(f), byte_at(f(b.writedata), lane, nbw), G(f, "spec")))
    # read bookkeeping
    rd_taken = lambda f: And(rd(f), Not(wait(f)))
    rdv = lambda f: f.b(b.readdatavalid)
    c.ghost("avm.rd_left", BW, 0, lambda f: If_(rd_taken(f), f(b.burstcount) - If_(rdv(f), BV(1, BW), BV(0, BW)),
                                                 If_(rdv(f), G(f, "rd_left") - 1, G(f, "rd_left"))))
    c.ghost("avm.rd_addr", aw, 0, lambda f: If_(rd_taken(f), f(b.address) + If_(rdv(f), BV(1, aw), BV(0, aw)),
                                                 If_(rdv(f), G(f, "rd_addr") + 1, G(f, "rd_addr"))))
    c.assume("avm.no_new_command_while_reads_outstanding", lambda f: Implies(G(f, "rd_left") != 0, Not(Or(rd(f), wr(f)))))
    c.bounded("no_read_data_without_an_outstanding_read", lambda f: Implies(rdv(f), Or(G(f, "rd_left") != 0, rd_taken(f))))
    c.bounded("read_beat_i_returns_content_of_address_plus_i", lambda f: Implies(
        And(rdv(f), G(f, "rd_left") != 0, G(f, "rd_addr") == VA), byte_at(f(b.readdata), lane, nbw) == G(f, "spec")))
    c.bounded("write_data_present_when_memory_takes_it", lambda f: Implies(f.b(port.wdata.ready), f.b(port.wdata.valid)))
    # a write changes only what accepted beats name: no native write command without an accepted write beat behind it
    r_down = max(1, ww // pw)
    CW = 8
    wacc_port = lambda f: And(f.b(port.cmd.valid), f.b(port.cmd.ready), f.b(port.cmd.we))
    wbeat = lambda f: And(wr(f), Not(wait(f)))
    c.ghost("avm.n_beats", CW, 0, lambda f: G(f, "n_beats") + If_(wbeat(f), BV(r_down, CW), BV(0, CW)))
    c.ghost("avm.n_wcmds", CW, 0, lambda f: G(f, "n_wcmds") + If_(wacc_port(f), BV(1, CW), BV(0, CW)))
    c.bounded("no_native_write_without_an_accepted_write_beat", lambda f: ULE(
        G(f, "n_wcmds") + If_(wacc_port(f), BV(1, CW), BV(0, CW)), G(f, "n_beats") + If_(wbeat(f), BV(r_down, CW), BV(0, CW))))
    c.cover("read_hit_after_write_hit", lambda f: And(rdv(f), G(f, "rd_addr") == VA, G(f, "rd_left") != 0,
                                                       G(f, "spec") != init), within=cfg.get("depth", 16))
    c.cover("burst_write_second_beat", lambda f: next_w(f), within=10)
    return c


CFGS = [dict(av=16, port=16), dict(av=16, port=8), dict(av=8, port=16), dict(av=16, port=16, base=0x8, mbl=2)]


def tasks(tier):
    out = []
    d = 11 if tier == "quick" else 18
    for cfg in CFGS[:3] if tier == "quick" else CFGS:
        cfg = dict(cfg, depth=d, adr_width=3, mbl=cfg.get("mbl", 2 if tier == "quick" else 4))
        out.append(dict(fn="av_contract", cfg=cfg, modes=["bounded", "cover", "difftest"], depth=d, weight=20,
                        timeout_ms=2400000, difftest_cycles=60, oneshot=True))
    return out
