"""C13 -- the DRAM-backed FIFO is lossless, ordered and bounded.

Proved (unbounded, all schedules), per configuration, on the real elaborated modules:
  * _LiteDRAMFIFOCtrl inside the real _LiteDRAMFIFO (with the real DMA engines): level <= depth, pointers in range,
    produce = consume + level (mod depth) -- so the slot being written is never one of the `level` unread slots (nothing
    is overwritten) and the slot being read has been written; ctrl.write happens exactly when the write port accepts a
    write command for base+produce (together with the data word entering the writer: C12 pairs them), ctrl.read exactly
    when the read port accepts a read command for base+consume: a slot's read command is accepted strictly after its
    write command, which is the order NativePortSpec (C01) needs to return the written word;
  * the k-th word goes to slot k mod depth and the k-th read fetches slot k mod depth (ghost counters against pointers).
  * LiteDRAMFIFO (bypass FSM): word counter dram_cnt = words handed to the DRAM FIFO minus words taken from it.
Bounded (labelled bounded): the real _LiteDRAMFIFO / LiteDRAMFIFO (with and without bypass, width ratio 1 and 2) between
a free producer / consumer and ONE NativePortSpec memory shared by the write and read port, watched word chosen freely at
the sink: it leaves the source after exactly the words that entered before it, unchanged; no word leaves that never
entered."""
import z3
from .common import *
from vc.engine import Contract
from vc.shims import capture_locals
from litedram.frontend.fifo import LiteDRAMFIFO, _LiteDRAMFIFO, _LiteDRAMFIFOCtrl
from .nativeport import add_shared_memory_env, byte_at, bit_at, Queue

PROPERTY = "C13"
LEVEL = "other"
FUNCTIONS = ["litedram.frontend.fifo:_LiteDRAMFIFOCtrl.__init__", "litedram.frontend.fifo:_LiteDRAMFIFOWriter.__init__",
             "litedram.frontend.fifo:_LiteDRAMFIFOReader.__init__", "litedram.frontend.fifo:_LiteDRAMFIFO.__init__",
             "litedram.frontend.fifo:LiteDRAMFIFO.__init__", "litedram.frontend.fifo:_inc",
             "litedram.frontend.dma:LiteDRAMDMAWriter.__init__", "litedram.frontend.dma:LiteDRAMDMAReader.__init__"]
ASSUMPTIONS = [
    "stream equality end to end is a BOUNDED check (depth in evidence) against a NativePortSpec memory shared by both ports "
    "(commands of the two ports ordered by acceptance, at most one accepted per cycle, queue of 3 outstanding commands); the "
    "unbounded part is the pointer / level / address discipline above, composed on paper with C12 (DMA order) and C01",
    "per configuration (depths, widths, bypass on/off)",
    "stream.Converter / stream.SyncFIFO of LiteX inside LiteDRAMFIFO are exercised only by the bounded check",
]
EXPLANATION = "inductive pointer/level/address contracts on the real _LiteDRAMFIFO + bounded watched-word stream check"


def _port(mode, dw, aw=10):
    return LiteDRAMNativePort(mode, aw, dw)


class CoreFifoHarness(Module):
    def __init__(self, cfg):
        dw = cfg.get("data_width", 16)
        self.wport, self.rport = _port("write", dw), _port("read", dw)
        with capture_locals(_LiteDRAMFIFO.__init__) as cap:
            self.submodules.fifo = _LiteDRAMFIFO(dw, cfg.get("base", 5), cfg["depth"], self.wport, self.rport)
        self.pick = Signal()
        self._s = Signal(2)
        self.comb += self._s.eq(Cat(self.pick, self.rport.rdata.ready))


def _free(h, fifo):
    w, r = h.wport, h.rport
    return [fifo.sink.valid, fifo.sink.data, fifo.source.ready, w.cmd.ready, w.wdata.ready, r.cmd.ready, r.rdata.valid,
            r.rdata.data, h.pick]


def pointers_contract(cfg):
    h = CoreFifoHarness(cfg)
    fifo, ctrl, w, r = h.fifo, h.fifo.ctrl, h.wport, h.rport
    depth, base = cfg["depth"], cfg.get("base", 5)
    c = Contract("_LiteDRAMFIFO", h, _free(h, fifo), cfg=cfg)
    W = max(len(ctrl.level), len(ctrl.write_address)) + 3
    lvl = lambda f: zext(f(ctrl.level), W)
    pr = lambda f: zext(f(ctrl.write_address), W)
    co = lambda f: zext(f(ctrl.read_address), W)
    D = BV(depth, W)
    c.invariant("level_never_exceeds_depth", lambda f: ULE(lvl(f), D))
    c.invariant("pointers_in_range", lambda f: And(ULT(pr(f), D), ULT(co(f), D)))
    c.invariant("produce_is_consume_plus_level_mod_depth", lambda f: Or(pr(f) == co(f) + lvl(f), pr(f) + D == co(f) + lvl(f)))
    wacc = lambda f: And(f.b(w.cmd.valid), f.b(w.cmd.ready))
    racc = lambda f: And(f.b(r.cmd.valid), f.b(r.cmd.ready))
    AW = len(w.cmd.addr)
    c.ensures("slot_written_exactly_when_write_command_accepted", lambda f: And(
        f.b(ctrl.write) == wacc(f), f.b(ctrl.write) == And(f.b(fifo.sink.valid), f.b(fifo.sink.ready)),
        Implies(wacc(f), And(f.b(w.cmd.we), eqv(f(w.cmd.addr), (BV(base, AW + 2) + zext(f(ctrl.write_address), AW + 2)))))))
    c.ensures("slot_read_exactly_when_read_command_accepted", lambda f: And(
        f.b(ctrl.read) == racc(f),
        Implies(racc(f), And(Not(f.b(r.cmd.we)), eqv(f(r.cmd.addr), (BV(base, AW + 2) + zext(f(ctrl.read_address), AW + 2)))))))
    c.ensures("never_written_when_full_never_read_when_empty", lambda f: And(
        Implies(f.b(ctrl.write), ULT(lvl(f), D)), Implies(f.b(ctrl.read), lvl(f) != 0)))
    # no unread slot is overwritten: for every offset j < level, slot consume+j is not the slot being written
    j = c.rigid("j", W)
    slot_j = lambda f: If_(UGE(co(f) + j, D), co(f) + j - D, co(f) + j)
    c.ensures("written_slot_holds_no_unread_word", lambda f: Implies(And(f.b(ctrl.write), ULT(j, lvl(f))), slot_j(f) != pr(f)))
    c.ensures("word_entering_is_the_word_given_to_the_writer", lambda f: Implies(
        f.b(ctrl.write), f(fifo.writer.writer.sink.data) == f(fifo.sink.data)))
    # k-th word <-> slot k mod depth
    c.ghost("nw", W, 0, lambda f: If_(f.b(ctrl.write), If_(f.g.nw == depth - 1, BV(0, W), f.g.nw + 1), f.g.nw))
    c.ghost("nr", W, 0, lambda f: If_(f.b(ctrl.read), If_(f.g.nr == depth - 1, BV(0, W), f.g.nr + 1), f.g.nr))
    c.invariant("kth_word_uses_slot_k_mod_depth", lambda f: And(f.g.nw == pr(f), f.g.nr == co(f)))
    c.cover("wrap_around", lambda f: And(f.b(ctrl.write), pr(f) == depth - 1), within=depth * 3 + 6)
    return c


# ---- bounded stream checks ------------------------------------------------------------------------------------------------

def _watch(c, h, sink, source, ilane_w):
    """watched word chosen freely at `sink`; leaves `source` after exactly the words that entered before it, unchanged"""
    dw = len(sink.data)
    ilane = c.rigid("ilane", max((dw // 8 - 1).bit_length(), 1))
    c.assume("watched_item_lane_in_range", lambda f: ULT(zext(ilane, 8), BV(dw // 8, 8)))
    push = lambda f: And(f.b(sink.valid), f.b(sink.ready))
    pop = lambda f: And(f.b(source.valid), f.b(source.ready))
    CW = 8
    c.ghost("occ", CW, 0, lambda f: f.g.occ + If_(push(f), BV(1, CW), BV(0, CW)) - If_(pop(f), BV(1, CW), BV(0, CW)))
    picked = lambda f: And(f.g.st == 0, push(f), f.b(h.pick))
    out_now = lambda f: And(f.g.st == 1, pop(f), f.g.ahead == 0)
    c.ghost("st", 2, 0, lambda f: If_(picked(f), BV(1, 2), If_(out_now(f), BV(2, 2), f.g.st)))
    c.ghost("val", 8, 0, lambda f: If_(picked(f), byte_at(f(sink.data), ilane, dw // 8), f.g.val))
    c.ghost("ahead", CW, 0, lambda f: If_(picked(f), f.g.occ - If_(pop(f), BV(1, CW), BV(0, CW)),
                                          If_(And(f.g.st == 1, pop(f), f.g.ahead != 0), f.g.ahead - 1, f.g.ahead)))
    c.ghost("nout", CW, 0, lambda f: f.g.nout + If_(pop(f), BV(1, CW), BV(0, CW)))
    return dict(push=push, pop=pop, picked=picked, out_now=out_now, ilane=ilane, dw=dw)


class CoreStreamHarness(Module):
    def __init__(self, cfg):
        dw = cfg.get("data_width", 16)
        self.wport, self.rport = _port("write", dw), _port("read", dw)
        self.submodules.fifo = _LiteDRAMFIFO(dw, cfg.get("base", 0), cfg["slots"], self.wport, self.rport,
                                             writer_fifo_depth=cfg.get("wdepth", 2), reader_fifo_depth=cfg.get("rdepth", 2))
        self.pick = Signal()
        self._s = Signal(2)
        self.comb += self._s.eq(Cat(self.pick, self.rport.rdata.ready))


def core_stream_contract(cfg):
    """real _LiteDRAMFIFO (ctrl + DMA writer + DMA reader) on one NativePortSpec memory shared by its two ports"""
    h = CoreStreamHarness(cfg)
    fifo, w, r = h.fifo, h.wport, h.rport
    c = Contract("_LiteDRAMFIFO.stream", h, _free(h, fifo), cfg=cfg)
    nlp = len(w.wdata.we)
    A = c.rigid("A", len(w.cmd.addr))
    init = c.rigid("init", 8)
    W = _watch(c, h, fifo.sink, fifo.source, None)
    add_shared_memory_env(c, w, r, "mem", A, zext(W["ilane"], max((nlp - 1).bit_length(), 1)), init, Q=cfg.get("Q", 3))
    # the memory specification speaks about ONE watched cell: the clause is demanded for the word stored in that cell
    # (the slot of the k-th word is k mod depth: proved in pointers_contract; here it is read off the accepted command)
    sc = cfg.get("scenario")
    if sc == "eager_consumer":
        c.assume("scenario.consumer_always_ready", lambda f: f.b(fifo.source.ready))
    elif sc == "eager_producer":
        c.assume("scenario.producer_always_offers", lambda f: f.b(fifo.sink.valid))
    elif sc == "eager_memory":
        c.assume("scenario.memory_accepts_commands_at_once", lambda f: And(
            Implies(f.b(w.cmd.valid), f.b(w.cmd.ready) != f.b(r.cmd.valid)), Implies(f.b(r.cmd.valid), f.b(r.cmd.ready))))
    c.ghost("in_cell", "bool", False, lambda f: If_(W["picked"](f), f(w.cmd.addr) == A, f.g.in_cell))
    c.bounded("no_word_leaves_that_never_entered", lambda f: Implies(W["pop"](f), f.g.occ != 0))
    c.bounded("watched_word_leaves_in_order_unchanged", lambda f: Implies(
        And(W["out_now"](f), f.g.in_cell), byte_at(f(fifo.source.data), W["ilane"], W["dw"] // 8) == f.g.val))
    c.cover("watched_word_delivered", lambda f: And(f.g.st == 2, f.g.in_cell), within=cfg["depth"])
    c.cover("watched_word_delivered_after_wrap_around", lambda f: And(W["out_now"](f), f.g.in_cell, UGE(f.g.nout, BV(cfg["slots"], 8))),
            within=cfg["depth"])
    return c


class _DramFifoSpec(Module):
    """CONTRACT of _LiteDRAMFIFO used in place of its body when checking its caller LiteDRAMFIFO: a stream in, a stream
    out; ready / valid / data are inputs of the harness constrained by a ghost FIFO (see top_contract)"""
    instances = []

    def __init__(self, data_width, base, depth, write_port, read_port, **kw):
        from litex.soc.interconnect import stream
        self.sink = stream.Endpoint([("data", data_width)])
        self.source = stream.Endpoint([("data", data_width)])
        self.depth, self.base = depth, base
        self._s = Signal(len(self.sink.data) + 4)
        self.comb += self._s.eq(Cat(self.sink.valid, self.sink.data, self.source.ready, self.sink.first, self.sink.last))
        _DramFifoSpec.instances.append(self)


class TopFifoHarness(Module):
    def __init__(self, cfg):
        import litedram.frontend.fifo as fmod
        pdw = cfg.get("port_data_width", 16)
        dw = cfg.get("data_width", pdw)
        self.wport, self.rport = _port("write", pdw), _port("read", pdw)
        real = fmod._LiteDRAMFIFO
        fmod._LiteDRAMFIFO = _DramFifoSpec
        try:
            self.submodules.fifo = LiteDRAMFIFO(dw, cfg.get("base", 0), cfg["depth_bytes"], self.wport, self.rport,
                                                with_bypass=cfg.get("with_bypass", False),
                                                pre_fifo_depth=cfg.get("pre", 2), post_fifo_depth=cfg.get("post", 2))
        finally:
            fmod._LiteDRAMFIFO = real
        self.spec = self.fifo.dram_fifo
        assert isinstance(self.spec, _DramFifoSpec)
        self.pick = Signal()
        self._s = Signal()
        self.comb += self._s.eq(self.pick)


def top_contract(cfg):
    """real LiteDRAMFIFO (pre/post FIFOs, converters, bypass FSM) with its callee _LiteDRAMFIFO replaced by that callee's
    contract: an exact FIFO of full DRAM words (ghost queue) with arbitrary stalls"""
    from .nativeport import Queue
    h = TopFifoHarness(cfg)
    fifo, sp = h.fifo, h.spec
    free = [fifo.sink.valid, fifo.sink.data, fifo.source.ready, sp.sink.ready, sp.source.valid, sp.source.data, h.pick]
    c = Contract("LiteDRAMFIFO", h, free, cfg=cfg)
    Qn = cfg.get("Q", 3)
    spush = lambda f: And(f.b(sp.sink.valid), f.b(sp.sink.ready))
    spop = lambda f: And(f.b(sp.source.valid), f.b(sp.source.ready))
    pdw = len(sp.sink.data)
    q = Queue(c, "dram", Qn, {"d": pdw}, push=spush, push_vals=lambda f: {"d": f(sp.sink.data)}, pop=spop)
    c.assume("dram_fifo.is_a_fifo_of_dram_words", lambda f: And(
        Implies(f.b(sp.sink.ready), Not(q.full(f))),
        Implies(f.b(sp.source.valid), q.nonempty(f)),                   # may stall arbitrarily
        Implies(f.b(sp.source.valid), f(sp.source.data) == q.head(f, "d"))))
    W = _watch(c, h, fifo.sink, fifo.source, None)
    c.bounded("no_word_leaves_that_never_entered", lambda f: Implies(W["pop"](f), f.g.occ != 0))
    c.bounded("watched_word_leaves_in_order_unchanged", lambda f: Implies(
        W["out_now"](f), byte_at(f(fifo.source.data), W["ilane"], W["dw"] // 8) == f.g.val))
    if cfg.get("with_bypass"):
        L = fifo
        c.cover("watched_word_went_through_dram", lambda f: And(W["out_now"](f), f.g.through), within=cfg["depth"])
        c.ghost("through", "bool", False, lambda f: Or(f.g.through, And(f.g.st == 1, spush(f))))
    c.cover("watched_word_delivered", lambda f: f.g.st == 2, within=cfg["depth"])
    return c


# ---- native randomized streams on the real FIFO + faithful memory (bounded) -------------------------------------------------

def _native_stream(seed, n=36, dw=8, pdw=16, pre=4, post=4, depth_bytes=16, p_in=0.7, p_out=0.5, p_mem=0.5, with_bypass=True,
                   stall_first=0, cycles=1500):
    """real LiteDRAMFIFO on a faithful two-port memory (NativePortSpec: per-port order, a read accepted after a write
    command of the same address waits for that write's data), random producer / consumer / memory stalls"""
    import random
    from migen.sim import run_simulation
    rnd = random.Random(seed)
    wp, rp = LiteDRAMNativePort("write", 10, pdw), LiteDRAMNativePort("read", 10, pdw)
    class H(Module):
        def __init__(self):
            self.submodules.fifo = LiteDRAMFIFO(dw, 0, depth_bytes, wp, rp, with_bypass=with_bypass, pre_fifo_depth=pre, post_fifo_depth=post)
    h = H(); fifo = h.fifo
    mem = {}
    hist = {}
    wpend = []          # (seq, addr) write commands accepted, data not yet taken
    seq = [0]
    sent, got = [], []
    def producer():
        i = 0
        while i < n:
            if rnd.random() < p_in:
                v = rnd.getrandbits(dw) | 1
                yield fifo.sink.valid.eq(1); yield fifo.sink.data.eq(v)
                yield
                while not (yield fifo.sink.ready):
                    yield
                sent.append(v); i += 1
                yield fifo.sink.valid.eq(0)
            else:
                yield
    def consumer():
        idle = 0
        t_ = 0
        # stall phases
        while idle < 120:
            t_ += 1
            rdy = 1 if (t_ > stall_first and rnd.random() < p_out) else 0
            if t_ <= stall_first:
                idle = 0
            yield fifo.source.ready.eq(rdy)
            yield
            if rdy and (yield fifo.source.valid):
                got.append((yield fifo.source.data)); idle = 0
            else:
                idle += 1
    def wmem():
        pend = []
        while True:
            cr = 1 if rnd.random() < p_mem else 0
            dr = 1 if (pend and rnd.random() < p_mem) else 0
            yield wp.cmd.ready.eq(cr); yield wp.wdata.ready.eq(dr)
            yield
            if cr and (yield wp.cmd.valid):
                a_ = (yield wp.cmd.addr)
                pend.append(a_); seq[0] += 1; wpend.append((seq[0], a_))
            if dr and (yield wp.wdata.valid):
                a = pend.pop(0); v_ = (yield wp.wdata.data); mem[a] = v_
                sq_ = wpend.pop(0)[0]
                hist.setdefault(a, []).append((sq_, v_))
    def rmem():
        pend = []
        while True:
            cr = 1 if rnd.random() < p_mem else 0
            yield rp.cmd.ready.eq(cr)
            ret = pend and rnd.random() < p_mem and not any(sq < pend[0][0] and a2 == pend[0][1] for sq, a2 in wpend)
            if ret:
                sq_r, a = pend.pop(0)
                # the content as of the read's acceptance: the last write accepted BEFORE it (later writes may already
                # have landed when the data is returned)
                older = [v for (sq_w, v) in hist.get(a, []) if sq_w < sq_r]
                yield rp.rdata.valid.eq(1); yield rp.rdata.data.eq(older[-1] if older else 0)
            else:
                yield rp.rdata.valid.eq(0)
            yield
            if cr and (yield rp.cmd.valid):
                seq[0] += 1
                pend.append((seq[0], (yield rp.cmd.addr)))
    gens = [producer(), consumer()]
    import itertools
    def bounded(g, cycles=cycles):
        n = 0
        val = None
        while True:
            try:
                x = g.send(val) if val is not None or n else next(g)
            except StopIteration:
                return
            if x is None:
                n += 1
                if n > cycles:
                    return
            val = yield x
    def wm():
        yield from bounded(wmem())
    def rm():
        yield from bounded(rmem())
    try:
        run_simulation(h, [bounded(producer(), cycles), bounded(consumer(), cycles), wm(), rm()])
    except Exception as e:
        return sent, got, repr(e)
    return sent, got, None



NATIVE_SCENARIOS = [dict(dw=16, with_bypass=False, seeds=[0, 1]), dict(dw=16, with_bypass=True, seeds=[0, 1, 2]),
                    dict(dw=8, with_bypass=True, seeds=[0, 1, 2, 3]),
                    # everything filled first (consumer stalled), then an irregular consumer: DRAM depth 16 / 48 words
                    dict(dw=16, with_bypass=True, seeds=[0, 1], deep=dict(n=110, depth_bytes=32, stall_first=260, p_out=0.35, p_in=0.9, p_mem=0.8, cycles=2500)),
                    dict(dw=16, with_bypass=True, seeds=[0], deep=dict(n=140, depth_bytes=96, stall_first=400, p_out=0.35, p_in=0.9, p_mem=0.8, cycles=3500))]


def native_streams_task(cfg, tier):
    import json, time
    from vc.runner import replay_path
    res = []
    for seed in cfg["seeds"]:
        t0 = time.time()
        deep = cfg.get("deep") or {}
        sent, got, exc = _native_stream(seed, dw=cfg["dw"], with_bypass=cfg["with_bypass"], **deep)
        ok = exc is None and got == sent
        k = next((i for i in range(min(len(sent), len(got))) if sent[i] != got[i]), min(len(sent), len(got)))
        oid = "C13/LiteDRAMFIFO.native[data_width=%d,port=16,with_bypass=%s,seed=%d%s]/bounded/output_stream_equals_input_stream" % (
            cfg["dw"], cfg["with_bypass"], seed, (",depth_words=%d,fill_first" % (deep["depth_bytes"] // 2)) if deep else "")
        r = {"id": oid, "kind": "bounded", "status": "bounded-ok" if ok else "failed", "seconds": round(time.time() - t0, 2),
             "backend": "native-simulation(migen)", "depth": len(sent)}
        if not ok:
            path = replay_path("C13", oid)
            json.dump({"property": "C13", "obligation": oid, "module": "contracts.c13", "kind": "pyargs",
                       "args": dict(seed=seed, dw=cfg["dw"], with_bypass=cfg["with_bypass"], deep=deep)}, open(path, "w"), indent=1)
            r.update(replay=path, reproduced=True, witness=dict(first_difference_at=k, sent=sent[max(0, k - 2):k + 4], received=got[max(0, k - 2):k + 4],
                                                                words_sent=len(sent), words_received=len(got), exception=exc))
        res.append(r)
    return {"results": res}


def replay(rp):
    a = rp["args"]
    sent, got, exc = _native_stream(a["seed"], dw=a["dw"], with_bypass=a["with_bypass"], **(a.get("deep") or {}))
    bad = exc is not None or got != sent
    print("replay %s: %s (sent %d words, received %d)" % (rp["obligation"], "VIOLATED on current tree" if bad else "not violated on current tree", len(sent), len(got)))
    return 1 if bad else 0


def tasks(tier):
    out = []
    pcs = [dict(depth=2), dict(depth=3, base=7), dict(depth=8, base=0), dict(depth=5, base=1000)]
    if tier != "quick":
        pcs += [dict(depth=16, base=16), dict(depth=7, base=3, data_width=32), dict(depth=64, base=64)]
    for cfg in pcs:
        out.append(dict(fn="pointers_contract", cfg=cfg, modes=["inductive", "cover", "difftest"], weight=3))
    q = tier == "quick"
    core = [(dict(slots=2, Q=2, data_width=8), 10 if q else 12), (dict(slots=2, data_width=8, scenario="eager_memory"), 12 if q else 14)]
    if not q:
        core += [(dict(slots=3, base=5, wdepth=3, Q=2), 11), (dict(slots=2, scenario="eager_consumer"), 12)]
    for cfg, d in core:
        out.append(dict(fn="core_stream_contract", cfg=dict(cfg, depth=d), modes=["bounded", "cover", "difftest"], depth=d, weight=30,
                        timeout_ms=3000000, oneshot=True, difftest_cycles=60))
    tops = [(dict(depth_bytes=8, with_bypass=False), 10 if q else 12),
            (dict(depth_bytes=8, with_bypass=True), 10 if q else 12),
            (dict(depth_bytes=8, with_bypass=True, data_width=8, pre=4, post=4), 12 if q else 14)]
    for cfg, d in tops:
        out.append(dict(fn="top_contract", cfg=dict(cfg, depth=d), modes=["bounded", "cover", "difftest"], depth=d, weight=30,
                        timeout_ms=3000000, oneshot=True, difftest_cycles=60))
    for sc in NATIVE_SCENARIOS:
        for seed in sc["seeds"]:
            out.append(dict(kind="custom", fn="native_streams_task", cfg=dict(sc, seeds=[seed]), weight=15))
    return out
