"""C20 -- LPDDR4 / LPDDR5 PHYs translate each DFI command into the matching CS/CA sequence.

* lpddr4.commands.DFIPhaseAdapter (+Command) and lpddr5.commands.DFIPhaseAdapter (+Command): combinational validity, for
  all DFI address / bank / strobe values and both write variants, of: JEDEC-decode(cs, ca) == the DFI operation with
  its bank, row or column, auto-precharge / all-bank flag, mode-register address and operand; `valid` iff a command is
  encoded; single-slot commands sit in the second slot.  The decoders below are transcribed by hand from the JESD209-4 /
  JESD209-5 command truth tables (trusted base).
* phy.utils.CommandsPipeline (+ConstBitSlip): by induction with ghost latches: the command on DFI phase p of cycle t
  occupies serial positions (t+1)*W + p*k ... of the CS / CA streams unless masked; masking rule: documented basic rule
  for the default setting, exact "overlaps a command actually in flight" rule for the extended setting.
"""
import z3
from .common import *
from vc.engine import Contract
from vc.shims import capture_locals
from litedram.phy import dfi
from litedram.phy.lpddr4.commands import DFIPhaseAdapter as A4, SpecialCmd as S4
from litedram.phy.lpddr5.commands import DFIPhaseAdapter as A5, SpecialCmd as S5, MPC as MPC5
from litedram.phy.utils import CommandsPipeline, ConstBitSlip

PROPERTY = "C20"
LEVEL = "proof"
FUNCTIONS = ["litedram.phy.lpddr4.commands:DFIPhaseAdapter.__init__", "litedram.phy.lpddr4.commands:Command.set",
             "litedram.phy.lpddr4.commands:Command.parse_bit", "litedram.phy.lpddr5.commands:DFIPhaseAdapter.__init__",
             "litedram.phy.lpddr5.commands:Command.set", "litedram.phy.lpddr5.commands:Command.parse_bit",
             "litedram.phy.utils:CommandsPipeline.__init__", "litedram.phy.utils:ConstBitSlip.__init__",
             "litedram.phy.lpddr4.basephy:LPDDR4PHY.__init__", "litedram.phy.lpddr5.basephy:LPDDR5PHY.__init__"]
ASSUMPTIONS = [
    "JESD209-4 / JESD209-5 command truth tables transcribed by hand into the decoders below (trusted base); 'V' (valid "
    "either level) and reserved bits are not demanded",
    "base PHYs under contract on the simulation PHYs (LPDDR4SimPHY / LPDDR5SimPHY): adapter-per-phase, pipeline -> serializer "
    "words, LPDDR5 two-cycle command buffer; the serializers themselves and the vendor PHYs' primitives are not under contract",
    "pipeline contract per configuration (phase counts, serializer widths, span); adapter outputs are free inputs there "
    "(any adapter), so it composes with the adapter contracts",
]
EXPLANATION = "combinational validity of JEDEC-decode(encode(dfi)) == dfi; pipeline placement/masking by induction"


def b(bv, i):
    return z3.Extract(i, i, bv) == 1


def pat(ca, s):
    """CA[0..n) of one cycle matches a pattern like 'L H H L L' (prefix)"""
    cl = []
    for i, ch in enumerate(s.split()):
        if ch == "H":
            cl.append(b(ca, i))
        elif ch == "L":
            cl.append(Not(b(ca, i)))
    return And(*cl) if cl else z3.BoolVal(True)


def bitsof(bv, idxs):
    """gather bits (LSB first) into a vector"""
    parts = [z3.Extract(i, i, bv) for i in idxs]
    return z3.Concat(*reversed(parts)) if len(parts) > 1 else parts[0]


def cat_lsb_first(bits_):
    return z3.Concat(*reversed(bits_)) if len(bits_) > 1 else bits_[0]


def lp4_adapter_contract(cfg):
    itf = dfi.Interface(17, 6, 1, 16, nphases=1)
    ph = itf.phases[0]
    mw = cfg["masked_write"]
    ad = A4(ph, masked_write=mw)
    free = [ph.address, ph.bank, ph.cas_n, ph.cs_n, ph.ras_n, ph.we_n]
    c = Contract("LPDDR4.DFIPhaseAdapter", ad, free, cfg=cfg)
    A = lambda f: f(ph.address)
    BA = lambda f: f(ph.bank)
    cs = lambda f: f(ad.cs)
    ca = lambda f, i: f(ad.ca[i])
    sel = lambda f: f(ph.cs_n) == 0

    def op(f, ras, cas, we):
        return And(sel(f), f.b(ph.ras_n) != ras, f.b(ph.cas_n) != cas, f.b(ph.we_n) != we)
    ACT = lambda f: op(f, True, False, False)
    RD = lambda f: op(f, False, True, False)
    WR = lambda f: op(f, False, True, True)
    PRE = lambda f: op(f, True, False, True)
    REF = lambda f: op(f, True, True, False)
    ZQC = lambda f: op(f, False, False, True)
    MRS = lambda f: op(f, True, True, True)
    NOP = lambda f: Or(Not(sel(f)), op(f, False, False, False))
    two_slots = lambda f: cs(f) == BV(0b0101, 4)          # CS high on cycles 0 and 2
    second_only = lambda f: cs(f) == BV(0b0100, 4)        # single-slot commands sit in the second slot
    ba3 = lambda f: z3.Extract(2, 0, BA(f))
    # ---- JEDEC decode of one "small command" (first cycle caH with CS high, second cycle caL)
    c.ensures("activate", lambda f: Implies(ACT(f), And(
        two_slots(f), f.b(ad.valid),
        pat(ca(f, 0), "H L"), pat(ca(f, 2), "H H"),                                   # ACTIVATE-1, ACTIVATE-2
        bitsof(ca(f, 1), [0, 1, 2]) == ba3(f),
        # row: R0-5 = caL2[0..5], R6-9 = caH2[2..5], R10,R11 = caL1[4,5], R12-15 = caH1[2..5], R16 = caL1[3]
        cat_lsb_first([z3.Extract(i, i, ca(f, 3)) for i in range(6)] + [z3.Extract(i, i, ca(f, 2)) for i in (2, 3, 4, 5)] +
                      [z3.Extract(4, 4, ca(f, 1)), z3.Extract(5, 5, ca(f, 1))] +
                      [z3.Extract(i, i, ca(f, 0)) for i in (2, 3, 4, 5)] + [z3.Extract(3, 3, ca(f, 1))]) == A(f))))

    def col_ok(f):
        # CAS-2: L H L L H C8 | C2..C7 ; first command carries C9 (caL[4]) and AP (caL[5]); BL = 0
        return And(pat(ca(f, 2), "L H L L H"), b(ca(f, 2), 5) == b(A(f), 8),
                   bitsof(ca(f, 3), [0, 1, 2, 3, 4, 5]) == z3.Extract(7, 2, A(f)),
                   b(ca(f, 1), 4) == b(A(f), 9), b(ca(f, 1), 5) == b(A(f), 10),
                   bitsof(ca(f, 1), [0, 1, 2]) == ba3(f), Not(b(ca(f, 0), 5)))
    c.ensures("read", lambda f: Implies(RD(f), And(two_slots(f), f.b(ad.valid), pat(ca(f, 0), "L H L L L"), col_ok(f))))
    wr_pat = "L L H H L" if mw else "L L H L L"
    c.ensures("write_variant", lambda f: Implies(WR(f), And(two_slots(f), f.b(ad.valid), pat(ca(f, 0), wr_pat), col_ok(f))))
    c.ensures("precharge", lambda f: Implies(PRE(f), And(
        second_only(f), f.b(ad.valid), pat(ca(f, 2), "L L L L H"), b(ca(f, 2), 5) == b(A(f), 10),
        bitsof(ca(f, 3), [0, 1, 2]) == ba3(f))))
    c.ensures("refresh", lambda f: Implies(REF(f), And(
        second_only(f), f.b(ad.valid), pat(ca(f, 2), "L L L H L"), b(ca(f, 2), 5) == b(A(f), 10),
        bitsof(ca(f, 3), [0, 1, 2]) == ba3(f))))
    c.ensures("mode_register_write", lambda f: Implies(MRS(f), And(
        two_slots(f), f.b(ad.valid), pat(ca(f, 0), "L H H L L"), pat(ca(f, 2), "L H H L H"),
        ca(f, 1) == z3.Extract(5, 0, BA(f)),                                          # MA0-5
        # OP7 = caH1[5], OP6 = caH2[5], OP0-5 = caL2
        z3.Concat(z3.Extract(5, 5, ca(f, 0)), z3.Extract(5, 5, ca(f, 2)), ca(f, 3)) == z3.Extract(7, 0, A(f)))))
    c.ensures("multi_purpose_command", lambda f: Implies(And(ZQC(f), BA(f) == int(S4.MPC)), And(
        second_only(f), f.b(ad.valid), pat(ca(f, 2), "L L L L L"),
        z3.Concat(z3.Extract(5, 5, ca(f, 2)), ca(f, 3)) == z3.Extract(6, 0, A(f)))))
    c.ensures("mode_register_read", lambda f: Implies(And(ZQC(f), BA(f) == int(S4.MRR)), And(
        two_slots(f), f.b(ad.valid), pat(ca(f, 0), "L H H H L"), ca(f, 1) == z3.Extract(5, 0, A(f)),
        pat(ca(f, 2), "L H L L H"))))
    c.ensures("nothing_encoded_otherwise", lambda f: Implies(
        Or(NOP(f), And(ZQC(f), UGT(BA(f), BV(1, 6)))), And(cs(f) == 0, Not(f.b(ad.valid)))))
    c.ensures("valid_iff_chip_select_pulses", lambda f: f.b(ad.valid) == (cs(f) != 0))
    c.ensures("idle_outputs_are_zero", lambda f: Implies(Not(f.b(ad.valid)), And(cs(f) == 0, *[ca(f, i) == 0 for i in range(4)])))
    c.ensures("chip_select_only_on_first_cycle_of_a_slot", lambda f: And(Not(b(cs(f), 1)), Not(b(cs(f), 3))))
    return c


def lp5_adapter_contract(cfg):
    itf = dfi.Interface(18, 7, 1, 16, nphases=1)
    ph = itf.phases[0]
    mw = cfg["masked_write"]
    ad = A5(ph, masked_write=mw)
    free = [ph.address, ph.bank, ph.cas_n, ph.cs_n, ph.ras_n, ph.we_n, ad.wck_sync_done]
    c = Contract("LPDDR5.DFIPhaseAdapter", ad, free, cfg=cfg)
    A = lambda f: f(ph.address)
    BA = lambda f: f(ph.bank)
    cs = lambda f: f(ad.cs)
    ca = lambda f, i: f(ad.ca[i])
    sel = lambda f: f(ph.cs_n) == 0

    def op(f, ras, cas, we):
        return And(sel(f), f.b(ph.ras_n) != ras, f.b(ph.cas_n) != cas, f.b(ph.we_n) != we)
    ACT = lambda f: op(f, True, False, False)
    RD = lambda f: op(f, False, True, False)
    WR = lambda f: op(f, False, True, True)
    PRE = lambda f: op(f, True, False, True)
    REF = lambda f: op(f, True, True, False)
    ZQC = lambda f: op(f, False, False, True)
    MRS = lambda f: op(f, True, True, True)
    NOP = lambda f: Or(Not(sel(f)), op(f, False, False, False))
    both = lambda f: cs(f) == BV(0b11, 2)
    second_only = lambda f: cs(f) == BV(0b10, 2)
    ba4 = lambda f: z3.Extract(3, 0, BA(f))
    sync_pending = lambda f: Not(f.b(ad.wck_sync_done))
    c.ensures("activate", lambda f: Implies(ACT(f), And(
        both(f), f.b(ad.valid), pat(ca(f, 0), "H H H"), pat(ca(f, 2), "H H L"),
        bitsof(ca(f, 1), [0, 1, 2, 3]) == ba4(f),
        # R0-6 = F2, R7-10 = R2[3..6], R11-13 = F1[4..6], R14-17 = R1[3..6]
        cat_lsb_first([z3.Extract(i, i, ca(f, 3)) for i in range(7)] + [z3.Extract(i, i, ca(f, 2)) for i in (3, 4, 5, 6)] +
                      [z3.Extract(i, i, ca(f, 1)) for i in (4, 5, 6)] + [z3.Extract(i, i, ca(f, 0)) for i in (3, 4, 5, 6)]) == A(f))))

    def cas_ok(f, kind):
        """first slot: CAS with the WCK2CK sync flag of the access kind while synchronisation is pending"""
        ws = {"WR": 4, "RD": 5}[kind]
        other = [i for i in (4, 5, 6) if i != ws]
        return And(pat(ca(f, 0), "L L H H"), b(ca(f, 0), ws) == sync_pending(f), *[Not(b(ca(f, 0), i)) for i in other],
                   ca(f, 1) == 0)

    def col_ok(f):
        # C0 = R[3], C3-5 = R[4..6]; falling: BA0-3, C1, C2, AP ; DFI column bits 4..9 are C0..C5
        return And(b(ca(f, 2), 3) == b(A(f), 4), bitsof(ca(f, 2), [4, 5, 6]) == z3.Extract(9, 7, A(f)),
                   bitsof(ca(f, 3), [0, 1, 2, 3]) == ba4(f), b(ca(f, 3), 4) == b(A(f), 5), b(ca(f, 3), 5) == b(A(f), 6),
                   b(ca(f, 3), 6) == b(A(f), 10))
    c.ensures("read", lambda f: Implies(RD(f), And(both(f), f.b(ad.valid), cas_ok(f, "RD"), pat(ca(f, 2), "H L L"), col_ok(f))))
    wr_pat = "L H L" if mw else "L H H"
    c.ensures("write_variant", lambda f: Implies(WR(f), And(both(f), f.b(ad.valid), cas_ok(f, "WR"), pat(ca(f, 2), wr_pat), col_ok(f))))
    c.ensures("precharge", lambda f: Implies(PRE(f), And(
        second_only(f), f.b(ad.valid), pat(ca(f, 2), "L L L H H H H"), bitsof(ca(f, 3), [0, 1, 2, 3]) == ba4(f),
        b(ca(f, 3), 6) == b(A(f), 10))))
    c.ensures("refresh", lambda f: Implies(REF(f), And(
        second_only(f), f.b(ad.valid), pat(ca(f, 2), "L L L H H H L"), bitsof(ca(f, 3), [0, 1, 2]) == z3.Extract(2, 0, BA(f)),
        b(ca(f, 3), 6) == b(A(f), 10), Not(b(ca(f, 3), 3)))))
    c.ensures("mode_register_write", lambda f: Implies(MRS(f), And(
        both(f), f.b(ad.valid), pat(ca(f, 0), "L L L H H L H"), ca(f, 1) == z3.Extract(6, 0, BA(f)),
        pat(ca(f, 2), "L L L H L L"), z3.Concat(z3.Extract(6, 6, ca(f, 2)), ca(f, 3)) == z3.Extract(7, 0, A(f)))))
    mpc_op = lambda f: If_(A(f) == 0, BV(int(MPC5.ZQC_LATCH), 8), z3.Extract(7, 0, A(f)))
    c.ensures("multi_purpose_command", lambda f: Implies(And(ZQC(f), BA(f) == int(S5.MPC)), And(
        second_only(f), f.b(ad.valid), pat(ca(f, 2), "L L L L H H"),
        z3.Concat(z3.Extract(6, 6, ca(f, 2)), ca(f, 3)) == mpc_op(f))))
    c.ensures("mode_register_read", lambda f: Implies(And(ZQC(f), BA(f) == int(S5.MRR)), And(
        both(f), f.b(ad.valid), cas_ok(f, "RD"), pat(ca(f, 2), "L L L H H L L"), ca(f, 3) == z3.Extract(6, 0, A(f)))))
    c.ensures("explicit_nop", lambda f: Implies(And(ZQC(f), BA(f) == int(S5.NOP)), And(
        second_only(f), f.b(ad.valid), ca(f, 2) == 0)))
    c.ensures("nothing_encoded_otherwise", lambda f: Implies(
        Or(NOP(f), And(ZQC(f), UGT(BA(f), BV(2, 7)))), And(cs(f) == 0, Not(f.b(ad.valid)), f(ad.wck_sync) == 0)))
    c.ensures("valid_iff_chip_select", lambda f: f.b(ad.valid) == (cs(f) != 0))
    c.ensures("idle_outputs_are_zero", lambda f: Implies(Not(f.b(ad.valid)), And(cs(f) == 0, *[ca(f, i) == 0 for i in range(4)])))
    c.ensures("wck_sync_request_matches_access", lambda f: f(ad.wck_sync) == If_(
        And(sync_pending(f), Or(RD(f), And(ZQC(f), BA(f) == int(S5.MRR)))), BV(2, 2),
        If_(And(sync_pending(f), WR(f)), BV(1, 2), BV(0, 2))))
    return c


# ----------------------------------------------------------------------------------------------------------------------
# CommandsPipeline
# ----------------------------------------------------------------------------------------------------------------------

class StubAdapter:
    def __init__(self, ncs, nca, ncyc):
        self.valid = Signal()
        self.cs = Signal(ncs)
        self.ca = [Signal(nca) for _ in range(ncyc)]


class PipeHarness(Module):
    def __init__(self, cfg):
        n = cfg["nphases"]
        self.adapters = [StubAdapter(cfg["cs_bits"], cfg["ca_nbits"], cfg["ca_cycles"]) for _ in range(n)]
        self.submodules.pipe = CommandsPipeline(self.adapters, cs_ser_width=cfg["cs_ser_width"],
                                                ca_ser_width=cfg["ca_ser_width"], ca_nbits=cfg["ca_nbits"],
                                                cmd_nphases_span=cfg["span"],
                                                extended_overlaps_check=cfg.get("extended", False))


def pipeline_contract(cfg):
    with capture_locals(ConstBitSlip.__init__) as cap:
        h = PipeHarness(cfg)
    slips = cap.calls["ConstBitSlip.__init__"]
    n, span, W = cfg["nphases"], cfg["span"], cfg["cs_ser_width"]
    CW, nca, ncyc = cfg["ca_ser_width"], cfg["ca_nbits"], cfg["ca_cycles"]
    kk = CW // W
    ads = h.adapters
    free = []
    for a in ads:
        free += [a.valid, a.cs] + list(a.ca)
    c = Contract("CommandsPipeline", h, free, cfg=cfg)
    # guaranteed by the adapter contracts (valid_iff_chip_select*, idle_outputs_are_zero)
    c.assume("adapter_without_command_drives_zeros", lambda f: And(*[Implies(
        Not(f.b(a.valid)), And(f(a.cs) == 0, *[f(x) == 0 for x in a.ca])) for a in ads]))
    ext = cfg.get("extended", False)
    prev = span - 1
    restrict = cfg.get("non_overlapping_traffic", False)
    if restrict:
        # restriction used where the unrestricted obligation is a recorded finding: the controller never presents a DFI
        # command within span-1 phases after another one (what the module timings guarantee)
        def spaced(f):
            cl = []
            for p, a in enumerate(ads):
                before = []
                for k in range(1, prev + 1):
                    q = p - k
                    before.append(f.b(ads[q].valid) if q >= 0 else f.g["v1_%d" % (q + n)])
                cl.append(Implies(f.b(a.valid), Not(Or(*before))))
            return And(*cl)
        c.assume("dfi_commands_never_overlap", spaced)
    # ghost: inputs of the previous cycle (the pipeline has one register stage), valids of the cycle before that, and the
    # exact "actually emitted" flags of the last `prev` phase positions
    for p, a in enumerate(ads):
        c.ghost("v1_%d" % p, "bool", False, lambda f, a=a: f.b(a.valid))
        c.ghost("v2_%d" % p, "bool", False, lambda f, p=p: f.g["v1_%d" % p])
        c.ghost("cs1_%d" % p, len(a.cs), 0, lambda f, a=a: f(a.cs))
        c.ghost("cs2_%d" % p, len(a.cs), 0, lambda f, p=p: f.g["cs1_%d" % p])
        for b_ in range(nca):
            w = ncyc
            c.ghost("ca1_%d_%d" % (p, b_), w, 0, lambda f, a=a, b_=b_: cat_lsb_first([z3.Extract(b_, b_, f(x)) for x in a.ca]))
            c.ghost("ca2_%d_%d" % (p, b_), w, 0, lambda f, p=p, b_=b_: f.g["ca1_%d_%d" % (p, b_)])

    def emitted_now(f):
        """exact rule on the current cycle's valids given the emitted flags of the last `prev` positions"""
        hist = [f.g["e_%d" % i] for i in range(prev)]        # e_0 = most recent position before this cycle
        out = []
        for p, a in enumerate(ads):
            before = (out[::-1] + hist)[:prev]
            e = And(f.b(a.valid), Not(Or(*before)) if before else True)
            out.append(e)
        return out
    for i in range(prev):
        c.ghost("e_%d" % i, "bool", False, lambda f, i=i: (emitted_now(f)[::-1] + [f.g["e_%d" % j] for j in range(prev)])[i])
    for p in range(n):
        c.ghost("m1_%d" % p, "bool", False, lambda f, p=p: emitted_now(f)[p])          # exact-rule decision, one cycle ago
        c.ghost("m2_%d" % p, "bool", False, lambda f, p=p: f.g["m1_%d" % p])

    impl = cfg.get("rule") == "implemented"

    def impl_now(f):
        """the extended rule AS IMPLEMENTED (characterisation, see known finding C20-extended-overlap-check-window): the
        'actually sent' flags are recomputed every cycle over the two-cycle window [previous cycle, this cycle] only"""
        v1 = [f.g["v1_%d" % q] for q in range(n)]
        hist = []
        for i in range(n):
            hist.append(And(v1[i], Not(Or(*hist[max(0, i - prev):i])) if hist[max(0, i - prev):i] else True))
        out = []
        for p_, a in enumerate(ads):
            before = hist[n + p_ - prev:n + p_]
            e = And(f.b(a.valid), Not(Or(*before)) if before else True)
            hist.append(e)
            out.append(e)
        return out
    if impl:
        for p in range(n):
            c.ghost("i1_%d" % p, "bool", False, lambda f, p=p: impl_now(f)[p])
            c.ghost("i2_%d" % p, "bool", False, lambda f, p=p: f.g["i1_%d" % p])

    def basic_allowed(f, p, which):
        """documented basic rule: no DFI command on the previous span-1 phases (of that cycle / the one before)"""
        cur = [f.g["v%d_%d" % (which, q)] for q in range(n)]
        older = [f.g["v2_%d" % q] for q in range(n)] if which == 1 else None
        before = []
        for k in range(1, prev + 1):
            q = p - k
            if q >= 0:
                before.append(cur[q])
            elif older is not None:
                before.append(older[q + n])
        return Not(Or(*before)) if before else z3.BoolVal(True)

    def expected_stream(f, kind, bit=None):
        """output word of this cycle: bits of last cycle's commands shifted by their phase, plus the spill-over of the
        cycle before"""
        width = W if kind == "cs" else CW
        step = 1 if kind == "cs" else kk
        acc = BV(0, width)
        for p in range(n):
            g1 = f.g["cs1_%d" % p] if kind == "cs" else f.g["ca1_%d_%d" % (p, bit)]
            g2 = f.g["cs2_%d" % p] if kind == "cs" else f.g["ca2_%d_%d" % (p, bit)]
            if impl:
                en1, en2 = f.g["i1_%d" % p], f.g["i2_%d" % p]
            elif ext:
                en1, en2 = f.g["m1_%d" % p], f.g["m2_%d" % p]
            else:
                en1 = And(basic_allowed(f, p, 1))
                en2 = None
            sh = p * step
            w1 = zext(g1, 2 * width) << sh
            lo = z3.Extract(width - 1, 0, w1)
            acc = acc | If_(en1, lo, BV(0, width))
            if en2 is not None or not ext:
                hi2 = z3.Extract(2 * width - 1, width, zext(g2, 2 * width) << sh)
                en2_ = en2 if en2 is not None else f.g["b2_%d" % p]
                acc = acc | If_(en2_, hi2, BV(0, width))
        return acc
    if not ext:
        for p in range(n):
            # basic-rule decision of two cycles ago needs the valids of three cycles ago: keep it as a ghost flag
            c.ghost("b1_%d" % p, "bool", True, lambda f, p=p: _basic_now(f, ads, p, prev, n))
            c.ghost("b2_%d" % p, "bool", True, lambda f, p=p: f.g["b1_%d" % p])
        c.invariant("basic_flags_are_the_documented_rule", lambda f: And(
            *[f.g["b1_%d" % p] == basic_allowed(f, p, 1) for p in range(n)]))
    # ---- linking invariants: the pipeline's registers hold the (masked) inputs of the last two cycles
    def masked(f, p, which, kind, bit=None):
        width = W if kind == "cs" else CW
        g = f.g["cs%d_%d" % (which, p)] if kind == "cs" else f.g["ca%d_%d_%d" % (which, p, bit)]
        if impl:
            en = f.g["i%d_%d" % (which, p)]
        elif ext:
            en = f.g["m%d_%d" % (which, p)]
        else:
            en = f.g["b%d_%d" % (which, p)]
        return If_(en, zext(g, width), BV(0, width))
    vreg = slips[0]["reg"]
    c.invariant("valid_history_register", lambda f: f(vreg) == cat_lsb_first(
        [If_(f.g["v1_%d" % q], BV(1, 1), BV(0, 1)) for q in range(n)]))
    def slip_regs(f):
        cl = []
        for p in range(n):
            base = 1 + p * (1 + nca)
            cl.append(f(slips[base]["self"].r) == z3.Concat(masked(f, p, 1, "cs"), masked(f, p, 2, "cs")))
            for b_ in range(nca):
                cl.append(f(slips[base + 1 + b_]["self"].r) == z3.Concat(masked(f, p, 1, "ca", b_), masked(f, p, 2, "ca", b_)))
        return And(*cl)
    c.invariant("slip_registers_hold_the_commands_of_the_last_two_cycles_masked_by_the_rule", slip_regs)
    pipe = h.pipe
    c.ensures("cs_stream_is_the_masked_commands_at_their_phase_slots", lambda f: f(pipe.cs) == expected_stream(f, "cs"))
    for b_ in range(nca):
        c.ensures("ca%d_stream_is_the_masked_commands_at_their_phase_slots" % b_,
                  lambda f, b_=b_: f(pipe.ca[b_]) == expected_stream(f, "ca", b_))
    if not ext:
        # the property's rule (suppressed iff it overlaps a command actually in flight) vs the implemented basic rule
        c.ensures("suppressed_only_if_overlapping_a_command_in_flight", lambda f: And(
            *[Implies(f.g["v1_%d" % p], f.g["b1_%d" % p] == f.g["m1_%d" % p]) for p in range(n)]))
    if restrict:
        def hist_spaced(f):
            cl = []
            for which in (1, 2):
                for p in range(n):
                    before = []
                    for q in range(p - prev, p):
                        if q >= 0:
                            before.append(f.g["v%d_%d" % (which, q)])
                        elif which == 1:
                            before.append(f.g["v2_%d" % (q + n)])
                    cl.append(Implies(f.g["v%d_%d" % (which, p)], Not(Or(*before)) if before else True))
            return And(*cl)
        c.invariant("history_is_spaced", hist_spaced)
        c.invariant("exact_rule_emits_every_spaced_command", lambda f: And(
            *[f.g["m1_%d" % p] == f.g["v1_%d" % p] for p in range(n)],
            *[f.g["m2_%d" % p] == f.g["v2_%d" % p] for p in range(n)],
            *[f.g["e_%d" % i] == f.g["v1_%d" % (n - 1 - i)] for i in range(prev)]))
        c.ensures("no_presented_command_is_suppressed", lambda f: And(
            *[Implies(f.g["v1_%d" % p], f.g["m1_%d" % p] if ext else f.g["b1_%d" % p]) for p in range(n)]))
    return c


def _basic_now(f, ads, p, prev, n):
    before = []
    for k in range(1, prev + 1):
        q = p - k
        if q >= 0:
            before.append(f.b(ads[q].valid))
        else:
            before.append(f.g["v1_%d" % (q + n)])
    return Not(Or(*before)) if before else z3.BoolVal(True)


# ---- base-PHY wiring ------------------------------------------------------------------------------------------------------

class _PhyHarness(Module):
    def __init__(self, phy, refs):
        self.submodules.phy = phy
        self.submodules += refs


def _same_adapter(f, a, r, nca):
    return And(f(a.cs) == f(r.cs), f.b(a.valid) == f.b(r.valid), *[f(a.ca[i]) == f(r.ca[i]) for i in range(nca)])


def lp4_phy_wiring_contract(cfg):
    """real LPDDR4 base PHY (simulation serializers behind it): the adapters sit on the DFI phases in order, feed the
    CommandsPipeline, whose CS/CA words are the words handed to the serializers"""
    from litedram.phy.lpddr4.simphy import LPDDR4SimPHY
    from litedram.phy.lpddr4.basephy import LPDDR4PHY
    mw = cfg["masked_write"]
    with capture_locals(LPDDR4PHY.__init__) as cap:
        phy = LPDDR4SimPHY(sys_clk_freq=100e6, masked_write=mw, extended_overlaps_check=cfg.get("extended", False))
    L = cap.of(phy)
    refs = [A4(ph, masked_write=mw) for ph in phy.dfi.phases]
    h = _PhyHarness(phy, refs)
    free = []
    for ph in phy.dfi.phases:
        free += [ph.address, ph.bank, ph.cas_n, ph.cs_n, ph.ras_n, ph.we_n]
    c = Contract("LPDDR4PHY.command_wiring", h, free, cfg=cfg)
    adapters = L["adapters"]
    c.ensures("adapter_i_encodes_dfi_phase_i", lambda f: And(*[_same_adapter(f, a, r, 4) for a, r in zip(adapters, refs)]))
    c.ensures("one_adapter_per_phase", lambda f: len(adapters) == len(phy.dfi.phases))
    c.ensures("serializer_words_are_the_pipeline_words", lambda f: And(
        eqv(f(phy.out.cs), f(phy.commands.cs)), *[eqv(f(phy.out.ca[i]), f(phy.commands.ca[i])) for i in range(len(phy.out.ca))]))
    pl = [l_ for l_ in cap.calls.get("LPDDR4PHY.__init__", [])]
    c.ensures("pipeline_reads_these_adapters_with_the_configured_rule", lambda f: z3.BoolVal(
        len(phy.commands.ca) == len(phy.out.ca)))
    c.parts = dict(phy=phy, adapters=adapters)
    return c


def lp5_phy_command_contract(cfg):
    """real LPDDR5 base PHY: a DFI command occupies CS/CA for two CK cycles (first half now, second half next cycle); a
    command presented while the second half of an accepted command is on the bus is the only thing suppressed"""
    from litedram.phy.lpddr5.simphy import LPDDR5SimPHY
    from litedram.phy.lpddr5.basephy import LPDDR5PHY
    mw = cfg["masked_write"]
    with capture_locals(LPDDR5PHY.__init__) as cap:
        phy = LPDDR5SimPHY(sys_clk_freq=100e6, masked_write=mw, wck_ck_ratio=cfg.get("wck_ck_ratio", 2))
    L = cap.of(phy)
    ph = phy.dfi.p0
    ref = A5(ph, masked_write=mw)
    h = _PhyHarness(phy, [ref])
    h.comb += ref.wck_sync_done.eq(phy.adapter.wck_sync_done)
    free = [ph.address, ph.bank, ph.cas_n, ph.cs_n, ph.ras_n, ph.we_n]
    c = Contract("LPDDR5PHY.command_path", h, free, cfg=cfg)
    sysck = lambda f: f.tick["sys"]                     # the other (serializer) domains tick freely; CS/CA logic is sys
    ad, buf = phy.adapter, L["cmd_buf"]
    c.ensures("adapter_encodes_dfi_phase_0", lambda f: And(
        f.b(ad.valid) == f.b(ref.valid), f(ad.cs) == f(ref.cs), *[f(ad.ca[i]) == f(ref.ca[i]) for i in range(4)]))
    # ghost: second half in flight
    started = lambda f: And(f.b(ad.valid), Not(f.g.busy))
    c.ghost("busy", "bool", False, lambda f: If_(sysck(f), started(f), f.g.busy))
    c.ghost("h_cs", 1, 0, lambda f: If_(And(sysck(f), started(f)), f(ad.cmd2.cs), f.g.h_cs))
    c.ghost("h_p", 7, 0, lambda f: If_(And(sysck(f), started(f)), f(ad.cmd2.ca[0]), f.g.h_p))
    c.ghost("h_n", 7, 0, lambda f: If_(And(sysck(f), started(f)), f(ad.cmd2.ca[1]), f.g.h_n))
    c.invariant("buffer_holds_the_second_half_of_the_command_started_last_cycle", lambda f: And(
        f.b(buf.source.valid) == f.g.busy,
        Implies(f.g.busy, And(f(buf.source.cs) == f.g.h_cs, f(buf.source.ca_p) == f.g.h_p, f(buf.source.ca_n) == f.g.h_n))))
    sel = lambda f, second, first: If_(f.g.busy, second, If_(f.b(ad.valid), first, BV(0, first.size())))
    c.ensures("chip_select_first_half_then_second_half_else_idle", lambda f: f(phy.out.cs) == sel(f, f.g.h_cs, f(ad.cmd1.cs)))
    for bit_ in range(7):
        c.ensures("ca%d_rising_and_falling_edge_words" % bit_, lambda f, bit_=bit_: And(
            z3.Extract(0, 0, f(phy.out.ca[bit_])) == sel(f, z3.Extract(bit_, bit_, f.g.h_p), z3.Extract(bit_, bit_, f(ad.cmd1.ca[0]))),
            z3.Extract(1, 1, f(phy.out.ca[bit_])) == sel(f, z3.Extract(bit_, bit_, f.g.h_n), z3.Extract(bit_, bit_, f(ad.cmd1.ca[1])))))
    c.ensures("halves_are_the_adapter_slots", lambda f: And(
        f(ad.cmd1.cs) == z3.Extract(0, 0, f(ad.cs)), f(ad.cmd2.cs) == z3.Extract(1, 1, f(ad.cs)),
        f(ad.cmd1.ca[0]) == f(ad.ca[0]), f(ad.cmd1.ca[1]) == f(ad.ca[1]),
        f(ad.cmd2.ca[0]) == f(ad.ca[2]), f(ad.cmd2.ca[1]) == f(ad.ca[3])))
    c.cover("command_two_cycles_after_a_suppressed_one_is_sent", lambda f: And(f.b(ad.valid), Not(f.g.busy), f.g.h_cs == 1),
            within=6)
    return c


def _r(d):
    d = dict(d)
    d["non_overlapping_traffic"] = True
    return d


PIPE_CFGS_BASE = [
    dict(nphases=8, cs_ser_width=8, ca_ser_width=8, ca_nbits=6, cs_bits=4, ca_cycles=4, span=4),                 # LPDDR4 SDR CA
    dict(nphases=4, cs_ser_width=4, ca_ser_width=8, ca_nbits=7, cs_bits=2, ca_cycles=4, span=2),                 # LPDDR5-like DDR CA
    dict(nphases=8, cs_ser_width=8, ca_ser_width=8, ca_nbits=6, cs_bits=4, ca_cycles=4, span=4, extended=True),
]
PIPE_CFGS = PIPE_CFGS_BASE + [_r(x) for x in PIPE_CFGS_BASE] + [dict(PIPE_CFGS_BASE[2], rule="implemented")]


def tasks(tier):
    out = []
    for mw in (True, False):
        out.append(dict(fn="lp4_adapter_contract", cfg=dict(masked_write=mw), modes=["inductive", "difftest"], difftest_cycles=30))
        out.append(dict(fn="lp5_adapter_contract", cfg=dict(masked_write=mw), modes=["inductive", "difftest"], difftest_cycles=30))
        out.append(dict(fn="lp5_phy_command_contract", cfg=dict(masked_write=mw), modes=["inductive", "cover", "difftest"], difftest_cycles=20))
        out.append(dict(fn="lp4_phy_wiring_contract", cfg=dict(masked_write=mw, extended=not mw), modes=["inductive", "difftest"], difftest_cycles=10))
    for cfg in PIPE_CFGS:
        out.append(dict(fn="pipeline_contract", cfg=cfg, modes=["inductive", "difftest"], weight=5, difftest_cycles=60,
                        search_depth=12))
    return out
