"""C04 -- refresh is never starved and keeps the datasheet refresh rate.

Refresher (real module, cmd.ready free under the grant-latency assumption A_G):
  T  RefreshTimer: a tick exactly every tREFI cycles (inductive, ghost phase counter);
  P  RefreshPostponer: one request per `postponing` ticks, one cycle after the last (inductive);
  D  from ANY in-range state the refresher is back in IDLE within B cycles (response, unbounded time);
  Q  hence never busy longer than B (k-induction), and with B < postponing*tREFI a request pulse always finds the FSM in
     IDLE: no refresh request is ever dropped (inductive, exact timer arithmetic);
  S  a granted request executes exactly `postponing` x (PREA, tRP, REF, tRFC) and nothing else (window);
  Z  a ZQCS period that elapsed is served at the next refresh (ensures).
Controller (real LiteDRAMController): A_G itself -- while the refresher requests, whatever the ports do, every bank machine
grants and the multiplexer hands over the bus within G cycles (response from any state satisfying the C02 invariants).
Deadline arithmetic (k-th REF by (k+postponing)*tREFI + L) from T, P, Q, S: z3 integer lemma.  Rate vs datasheet
(tREFI cycles * T <= tREFI ns) is C16's postcondition.
"""
import z3
from .common import *
from vc.engine import Contract, boot_prefix
from vc.shims import capture_locals
from litedram.core.refresher import (Refresher, RefreshTimer, RefreshPostponer, RefreshSequencer, RefreshExecuter,
                                     ZQCSExecuter)
from litex.gen.genlib import misc as _misc
from . import c02

PROPERTY = "C04"
LEVEL = "proof"
FUNCTIONS = ["litedram.core.refresher:Refresher.__init__", "litedram.core.refresher:RefreshTimer.__init__",
             "litedram.core.refresher:RefreshPostponer.__init__", "litedram.core.refresher:RefreshSequencer.__init__",
             "litedram.core.refresher:RefreshExecuter.__init__", "litedram.core.refresher:ZQCSExecuter.__init__",
             "litex.gen.genlib.misc:timeline", "litedram.core.bankmachine:BankMachine.__init__",
             "litedram.core.multiplexer:Multiplexer.__init__", "litedram.core.controller:LiteDRAMController.__init__"]
ASSUMPTIONS = [
    "refresher level assumes A_G (cmd.ready within G cycles of cmd.valid) and that the bus stays granted during a "
    "sequence; both are proved on the real controller (A_G below; C02 invariant refresher_busy_implies_mux_refresh)",
    "configuration precondition made explicit: G + postponing*(tRP+tRFC+2) + 4 < postponing*tREFI (otherwise a request "
    "pulse can be lost by design)",
    "per configuration; the final deadline arithmetic is a z3 integer lemma over the proved module facts",
    "tREFI cycles vs datasheet nanoseconds is C16's postcondition",
]
EXPLANATION = "module contracts by induction / k-induction / response from arbitrary in-range states; A_G on the controller"


class RefHarness(Module):
    def __init__(self, cfg):
        kw = dict(cfg)
        self.post = kw.pop("postponing", 1)
        self.G = kw.pop("G", 16)
        zq_period = kw.pop("zqcs_period", None)
        s = mk_settings(**kw)
        self.settings = s
        clk = 1e6
        zf = (clk / zq_period) if zq_period else 1e0
        with capture_locals(Refresher.__init__, RefreshTimer.__init__, RefreshPostponer.__init__,
                            RefreshSequencer.__init__, _misc.timeline, RefreshExecuter.__init__,
                            ZQCSExecuter.__init__) as cap:
            self.submodules.r = r = Refresher(s, clk, zqcs_freq=zf, postponing=self.post)
        self.L = cap.of(r)
        self.cap = cap


def refresher_contract(cfg):
    h = RefHarness(cfg)
    r, L, s = h.r, h.L, h.settings
    N, G = h.post, h.G
    trefi, tRP, tRFC = s.timing.tREFI, s.timing.tRP, s.timing.tRFC
    fsm = r.fsm
    has_zq = s.timing.tZQCS is not None
    RT = tRP + tRFC + 1                       # one executer round: timeline 0..tRP+tRFC
    ZT = (tRP + s.timing.tZQCS + 1) if has_zq else 0
    B = G + 2 + N * (RT + 1) + ZT + 4         # busy bound (verified by obligation D)
    c = Contract("Refresher", h, [r.cmd.ready], cfg=cfg)
    assert B < N * trefi, "configuration precondition"
    tcalls = h.cap.calls["RefreshTimer.__init__"]
    tcount = [x for x in tcalls if x["self"] is r.timer][0]["count"]
    pcount = h.cap.calls["RefreshPostponer.__init__"][0]["count"]
    scount = h.cap.calls["RefreshSequencer.__init__"][0]["count"]
    tls = h.cap.calls["timeline"]
    cnt = tls[0]["counter"]
    zcnt = tls[1]["counter"] if len(tls) > 1 else None
    wants_refresh = L["wants_refresh"]
    cmd = r.cmd
    doing = ["DO-REFRESH"] + (["DO-ZQCS"] if has_zq else [])
    acc = lambda f: And(f.b(cmd.valid), f.b(cmd.ready))
    is_prea = lambda f: And(acc(f), f.b(cmd.ras), Not(f.b(cmd.cas)), f.b(cmd.we))
    is_ref = lambda f: And(acc(f), f.b(cmd.ras), f.b(cmd.cas), Not(f.b(cmd.we)))
    is_zq = lambda f: And(acc(f), Not(f.b(cmd.ras)), Not(f.b(cmd.cas)), f.b(cmd.we))
    W = 20
    # ---- environment
    c.ghost("wait_age", 8, 0, lambda f: If_(state_is(f, fsm, "WAIT-BANK-MACHINES"),
                                            If_(f.g.wait_age == 255, BV(255, 8), f.g.wait_age + 1), BV(0, 8)))
    c.assume("A_G.granted_within_G", lambda f: Implies(
        And(state_is(f, fsm, "WAIT-BANK-MACHINES"), UGE(f.g.wait_age, BV(G, 8))), f.b(cmd.ready)))
    c.assume("bus_stays_granted_during_sequence", lambda f: Implies(state_is(f, fsm, *doing), f.b(cmd.ready)))
    # ---- T: timer
    tick = lambda f: f.b(r.timer.done)
    c.ghost("since_tick", W, 0, lambda f: If_(tick(f), BV(0, W), f.g.since_tick + 1))
    c.invariant("T.timer_phase", lambda f: And(ULE(f(tcount), BV(trefi - 1, len(tcount))),
                                               zext(f(tcount), W) + f.g.since_tick == BV(trefi - 1, W)))
    c.ensures("T.tick_exactly_every_trefi_cycles", lambda f: tick(f) == (f.g.since_tick == BV(trefi - 1, W)))
    # ---- P: postponer
    c.ghost("ticks_mod", 4, 0, lambda f: If_(tick(f), If_(f.g.ticks_mod == N - 1, BV(0, 4), f.g.ticks_mod + 1), f.g.ticks_mod))
    c.ghost("last_tick_was_nth", "bool", False, lambda f: And(tick(f), f.g.ticks_mod == N - 1))
    c.invariant("P.postponer_count", lambda f: And(ULT(f.g.ticks_mod, BV(N, 4)),
                                                   zext(f(pcount), 4) + f.g.ticks_mod == BV(N - 1, 4)))
    c.invariant("P.request_one_cycle_after_every_nth_tick", lambda f: And(
        f.b(wants_refresh) == f.g.last_tick_was_nth,
        Implies(f.g.last_tick_was_nth, And(f.g.since_tick == 0, f.g.ticks_mod == 0))))
    # ---- exact time since the last request pulse, tied to the timer/postponer state
    c.ghost("since_req", W, 0, lambda f: If_(f.b(wants_refresh), BV(1, W), f.g.since_req + 1))
    # since_req counts cycles since the last request pulse (since reset before the first); next pulse at N*trefi
    c.invariant("P.request_period_arithmetic", lambda f: And(
        ULE(f.g.since_req, BV(N * trefi, W)),
        f.g.since_req == If_(f.g.last_tick_was_nth, BV(N * trefi, W),
                             zext(f.g.ticks_mod, W) * BV(trefi, W) + f.g.since_tick)))
    c.ensures("P.requests_exactly_every_postponing_trefi", lambda f: f.b(wants_refresh) == (f.g.since_req == BV(N * trefi, W)))
    # ---- range invariants
    lastev = tRP + tRFC
    rng = [state_in_range(lambda s_: None, fsm) if False else None]
    c.invariant("ranges", lambda f: And(
        state_in_range(f, fsm), ULE(f(cnt), BV(lastev, len(cnt))), ULE(f(scount), BV(N - 1, len(scount))),
        ULE(f.g.wait_age, BV(G + 1, 8)),
        ULE(f(zcnt), BV(tRP + s.timing.tZQCS, len(zcnt))) if zcnt is not None else True))
    # ---- start-up: with postponing > 1 the sequencer's round counter resets to postponing-1 and runs invisible rounds
    # (cmd.valid = 0) right after reset.  This prefix is input independent: its exact register sequence is obtained by
    # native simulation and asserted as an invariant (checked by the solver like any other).
    seq_regs = lambda cc: _seq_regs(cc.module)
    prefix = boot_prefix(lambda: _plain(cfg), seq_regs, lambda sim, cc: _seq_idle(sim, cc.module)) if N > 1 else [()]
    K = len(prefix) - 1
    c.ghost("boot_t", 12, 0, lambda f: If_(ULT(f.g.boot_t, BV(K, 12)), f.g.boot_t + 1, BV(K, 12)))
    booted = lambda f: f.g.boot_t == BV(K, 12)
    myregs = _seq_regs(h)
    c.invariant("boot.counter_range", lambda f: ULE(f.g.boot_t, BV(K, 12)))
    if K:
        c.invariant("boot.prefix_is_the_simulated_sequence", lambda f: And(
            ULE(f.g.boot_t, BV(K, 12)),
            *[Implies(f.g.boot_t == BV(t, 12), And(zext(f.g.since_req, W) == BV(t, W),
                                                   *[f(rg) == BV(v, len(rg)) for rg, v in zip(myregs, prefix[t])]))
              for t in range(K)]))
    c.invariant("sequencer_idle_outside_sequences", lambda f: Implies(
        And(booted(f), state_is(f, fsm, "IDLE", "WAIT-BANK-MACHINES")),
        And(f(cnt) == 0, f(scount) == 0, Not(f.b(r.sequencer.done)), f(zcnt) == 0 if zcnt is not None else True)))
    c.invariant("busy_only_after_boot", lambda f: Implies(Not(booted(f)), state_is(f, fsm, "IDLE")))
    ex = h.cap.calls["RefreshExecuter.__init__"][0]["self"]
    c.invariant("in_sequence_consistency", lambda f: And(
        Implies(f.b(ex.done), f(cnt) == 0),
        Implies(And(booted(f), state_is(f, fsm, "DO-REFRESH")), (f(cnt) != 0) != f.b(ex.done)),
        Implies(And(booted(f), Not(state_is(f, fsm, "DO-REFRESH"))), And(Not(f.b(ex.done)), f(cnt) == 0, f(scount) == 0)),
        Implies(state_is(f, fsm, "WAIT-BANK-MACHINES"), ULE(f.g.wait_age, BV(G, 8)))))
    if zcnt is not None:
        zx = r.zqs_executer
        c.invariant("in_zqcs_consistency", lambda f: And(
            Implies(f.b(zx.done), f(zcnt) == 0),
            Implies(state_is(f, fsm, "DO-ZQCS"), (f(zcnt) != 0) != f.b(zx.done)),
            Implies(Not(state_is(f, fsm, "DO-ZQCS")), And(Not(f.b(zx.done)), f(zcnt) == 0))))
    # ---- D/Q: busy time
    busy = lambda f: Not(state_is(f, fsm, "IDLE"))
    c.ghost("age_busy", 12, 0, lambda f: If_(f.nx(fsm.state) == BV(fsm.encoding["IDLE"], len(fsm.state)), BV(0, 12),
                                             f.g.age_busy + 1))
    return c, dict(h=h, B=B, N=N, G=G, busy=busy, is_prea=is_prea, is_ref=is_ref, is_zq=is_zq, fsm=fsm, cnt=cnt, zcnt=zcnt,
                   scount=scount, doing=doing, wants_refresh=wants_refresh, RT=RT, ZT=ZT, tick=tick, W=W, trefi=trefi,
                   tRP=tRP, tRFC=tRFC, has_zq=has_zq, acc=acc)


def _plain(cfg):
    h = RefHarness(cfg)
    return Contract("RefresherBoot", h, [h.r.cmd.ready], cfg=cfg)


def _seq_regs(h):
    """registers of the sequencer / executers / FSM / command (everything but the free-running timers)"""
    r = h.r
    tls = h.cap.calls["timeline"]
    regs = [r.fsm.state, h.cap.calls["RefreshSequencer.__init__"][0]["count"], tls[0]["counter"]]
    if len(tls) > 1:
        regs.append(tls[1]["counter"])
    ex = h.cap.calls["RefreshExecuter.__init__"][0]["self"]
    regs += [ex.done, r.cmd.a, r.cmd.ba, r.cmd.cas, r.cmd.ras, r.cmd.we]
    if len(tls) > 1:
        regs.append(r.zqs_executer.done)
    return regs


def _seq_idle(sim, h):
    r = h.r
    tls = h.cap.calls["timeline"]
    ex = h.cap.calls["RefreshExecuter.__init__"][0]["self"]
    return (sim.get(tls[0]["counter"]) == 0 and sim.get(h.cap.calls["RefreshSequencer.__init__"][0]["count"]) == 0
            and sim.get(ex.done) == 0 and sim.get(r.cmd.ras) == 0 and sim.get(r.cmd.cas) == 0 and sim.get(r.cmd.we) == 0)


def refresher_base(cfg):
    c, P = refresher_contract(cfg)
    fsm, B, N = P["fsm"], P["B"], P["N"]
    # D: from any in-range state, IDLE within B cycles
    c.response("D.back_to_idle", lambda f: z3.BoolVal(True), lambda f: state_is(f, fsm, "IDLE"), B)
    # S: a granted request runs exactly N x (PREA, tRP, REF, tRFC)
    RT, tRP, h = P["RT"], P["tRP"], P["h"]
    depth = N * (RT + 1) + 3

    def seq_goal(vs):
        # (a request that was granted within G: Q proves since_req == time spent busy <= G+1 here)
        start = And(state_is(vs[0], fsm, "WAIT-BANK-MACHINES"), vs[0].b(h.r.cmd.ready),
                    ULE(vs[0].g.since_req, BV(P["G"] + 1, P["W"])))
        w = 8
        nref = z3.Sum([If_(P["is_ref"](v), BV(1, w), BV(0, w)) for v in vs[1:]])
        npre = z3.Sum([If_(And(P["is_prea"](v), state_is(v, fsm, "DO-REFRESH")), BV(1, w), BV(0, w)) for v in vs[1:]])
        cl = [nref == N, npre == N]
        for j in range(1, len(vs)):
            # every REF is preceded by a PREA exactly tRP cycles earlier and nothing in between
            if j - tRP >= 1:
                cl.append(Implies(P["is_ref"](vs[j]), And(P["is_prea"](vs[j - tRP]),
                                                           *[Not(Or(P["is_ref"](vs[i]), P["is_prea"](vs[i]))) for i in range(j - tRP + 1, j)])))
            else:
                cl.append(Not(P["is_ref"](vs[j])))
        cl.append(Or(*[Not(P["busy"](v)) if not P["has_zq"] else Or(Not(P["busy"](v)), state_is(v, fsm, "DO-ZQCS")) for v in vs[1:]]))
        return Implies(start, And(*cl))
    c.window("S.granted_request_runs_postponing_refreshes", seq_goal, depth)
    c.cover("request_pulse", lambda f: f.b(P["wants_refresh"]), within=N * P["trefi"] + 3)
    c.cover("refresh_command", lambda f: P["is_ref"](f), within=N * P["trefi"] + P["G"] + 12)
    return c


def refresher_busy(cfg):
    """Q by k-induction (k = B+1): never busy longer than B; with exact timer arithmetic: a request pulse always finds IDLE"""
    c, P = refresher_contract(cfg)
    fsm, B, N, W, trefi = P["fsm"], P["B"], P["N"], P["W"], P["trefi"]
    c.name = "RefresherNoLostRequest"
    c.k = B + 1
    c.invariant("Q.never_busy_longer_than_B", lambda f: ULE(f.g.age_busy, BV(B, 12)))
    c.invariant("Q.busy_age_is_time_since_request", lambda f: Implies(
        P["busy"](f), zext(f.g.age_busy, W) == f.g.since_req))
    c.invariant("Q.idle_has_zero_age", lambda f: Implies(Not(P["busy"](f)), f.g.age_busy == 0))
    c.ensures("no_refresh_request_is_ever_dropped", lambda f: Implies(f.b(P["wants_refresh"]), state_is(f, fsm, "IDLE")))
    return c


def zqcs_contract(cfg):
    """Z: a ZQCS period that elapsed is served by the refresh sequence that follows"""
    c, P = refresher_contract(cfg)
    c.name = "RefresherZQCS"
    h, fsm = P["h"], P["fsm"]
    r = h.r
    zt = r.zqcs_timer
    c.ghost("zq_due", "bool", False, lambda f: If_(P["is_zq"](f), False, Or(
        f.g.zq_due, And(f.b(zt.done), Not(state_is(f, fsm, "DO-ZQCS"))))))
    c.invariant("Z.elapsed_period_stays_pending_until_served", lambda f: Implies(f.g.zq_due, f.b(zt.done)))
    zcnt, tRP, cmd = P["zcnt"], P["tRP"], r.cmd
    zx = r.zqs_executer
    c.invariant("Z.zqcs_opcode_when_its_turn_comes", lambda f: Implies(
        And(state_is(f, fsm, "DO-ZQCS"), f(zcnt) == tRP + 1), And(Not(f.b(cmd.ras)), Not(f.b(cmd.cas)), f.b(cmd.we))))
    c.invariant("Z.not_due_once_issued", lambda f: Implies(
        And(state_is(f, fsm, "DO-ZQCS"), Or(UGT(f(zcnt), BV(tRP + 1, len(zcnt))), f.b(zx.done))), Not(f.g.zq_due)))
    c.ensures("Z.elapsed_zqcs_period_is_served_at_next_refresh", lambda f: Implies(
        And(state_is(f, fsm, "DO-REFRESH"), f.b(r.sequencer.done), Or(f.g.zq_due, f.b(zt.done))),
        f.nx(fsm.state) == BV(fsm.encoding["DO-ZQCS"], len(fsm.state))))
    c.cover("zqcs_period_elapses", lambda f: f.b(zt.done), within=cfg["zqcs_period"] + 2)
    return c


# ----------------------------------------------------------------------------------------------------------------------
# A_G on the real controller
# ----------------------------------------------------------------------------------------------------------------------

def grant_contract(cfg):
    cfg = dict(cfg)
    G = cfg.pop("G")
    c = c02.ctrl_contract(cfg)
    c.name = "ControllerRefreshGrant"
    c.cfg = dict(cfg, G=G)
    c.ensures_.clear()
    c.covers.clear()
    P = c.parts
    h = P["h"]
    refr, mux = h.ctrl.refresher, h.ctrl.multiplexer
    rfsm, mfsm = refr.fsm, mux.fsm
    c.response("A_G.refresh_granted_within_G",
               lambda f: state_is(f, rfsm, "WAIT-BANK-MACHINES"),
               lambda f: f.b(refr.cmd.ready), G)
    # traffic resumes: once the refresher is done the request drops and the bank machines leave REFRESH
    c.response("bank_machines_resume_after_refresh",
               lambda f: And(state_is(f, rfsm, "IDLE"), state_is(f, mfsm, "REFRESH")),
               lambda f: And(Not(state_is(f, mfsm, "REFRESH")),
                             *[Not(state_is(f, L["self"].fsm, "REFRESH")) for L in h.bms]), 3)
    return c


def deadline_lemma(cfg, tier):
    """pure arithmetic over the proved module facts (ticks at multiples of tREFI, request one cycle after every N-th tick,
    batch of N refreshes within B cycles of the request): the k-th REF is issued by (k+N)*tREFI + B + 1."""
    import time
    t0 = time.time()
    N, T, B, k, m = z3.Ints("N T B k m")
    s = z3.Solver()
    s.set("timeout", 60000)
    # batch m (m>=1) is requested at cycle m*N*T + 1 and complete by m*N*T + 1 + B; REF k belongs to batch m with
    # (m-1)*N < k <= m*N
    s.add(N >= 1, N <= 8, T >= 100, B >= 0, B < N * T, k >= 1, m >= 1, (m - 1) * N < k, k <= m * N)
    deadline = (k + N) * T + B + 1
    s.add(z3.Not(m * N * T + 1 + B <= deadline))
    r = s.check()
    res = [{"id": "C04/Arithmetic[]/lemma/kth_refresh_by_k_plus_postponing_trefi_plus_latency", "kind": "lemma",
            "status": "proved" if r == z3.unsat else ("failed" if r == z3.sat else "unknown"),
            "seconds": round(time.time() - t0, 3), "backend": "z3-%s (nonlinear integer arithmetic)" % z3.get_version_string()}]
    # owed refreshes: at any time, ticks so far - refreshes done <= N + ceil(B/T) <= N + 1 when B < T*... (stated for B < N*T)
    s = z3.Solver()
    s.set("timeout", 60000)
    t, done = z3.Ints("t done")
    # at time t within batch period m: ticks = floor(t/T) <= m*N + (t - m*N*T)/T ; refreshes done >= (m-1)*N always and
    # >= m*N once t >= m*N*T + 1 + B
    s.add(N >= 1, N <= 8, T >= 100, B >= 0, B < N * T, m >= 1, t >= m * N * T, t < (m + 1) * N * T)
    ticks = t / T
    owed_before = ticks - (m - 1) * N
    owed_after = ticks - m * N
    s.add(z3.Not(z3.And(owed_before <= 2 * N, z3.Implies(t >= m * N * T + 1 + B, owed_after <= N))))
    r2 = s.check()
    res.append({"id": "C04/Arithmetic[]/lemma/owed_refreshes_bounded", "kind": "lemma",
                "status": "proved" if r2 == z3.unsat else ("failed" if r2 == z3.sat else "unknown"),
                "seconds": round(time.time() - t0, 3), "backend": "z3-%s (nonlinear integer arithmetic)" % z3.get_version_string()})
    return {"results": res}


REF_BASE = dict(tRP=2, tRFC=6, tREFI=100)


def _rc(**kw):
    d = dict(REF_BASE)
    d.update(kw)
    return d


def tasks(tier):
    out = []
    cfgs = [_rc(postponing=1, G=16), _rc(postponing=2, G=16, tRFC=8), _rc(postponing=4, G=24, tRP=3, tRFC=11),
            _rc(postponing=8, G=16, tRFC=5)]
    if tier != "quick":
        cfgs += [_rc(postponing=1, G=40, tRFC=30, tREFI=128), _rc(postponing=8, G=30, tRFC=20, tREFI=130, tRP=4)]
    for cfg in cfgs:
        out.append(dict(fn="refresher_base", cfg=cfg, modes=["inductive", "response", "window", "cover", "difftest"],
                        weight=5, difftest_cycles=400))
        out.append(dict(fn="refresher_busy", cfg=cfg, modes=["inductive"], weight=20, timeout_ms=900000))
    for cfg in [_rc(postponing=1, G=16, tZQCS=4, zqcs_period=250), _rc(postponing=2, G=16, tZQCS=6, zqcs_period=333)]:
        out.append(dict(fn="refresher_base", cfg=cfg, modes=["inductive", "response", "window", "difftest"], weight=5))
        out.append(dict(fn="zqcs_contract", cfg=cfg, modes=["inductive", "cover"], weight=5, search_depth=400,
                        search_timeout_ms=120000))
    gcfgs = [dict(c02.CTRL_BASE, G=24), dict(c02.CTRL_CONFIGS_QUICK[1], G=30), dict(c02.CTRL_CONFIGS_QUICK[2], G=24)]
    if tier != "quick":
        gcfgs += [dict(c02.CTRL_CONFIGS_THOROUGH[4], G=40), dict(c02.CTRL_CONFIGS_THOROUGH[5], G=36)]   # (G=30 before the tRAS fix: the grant now also waits for tRAS)
    for cfg in gcfgs:
        out.append(dict(fn="grant_contract", cfg=cfg, modes=["inductive", "response"], weight=30, timeout_ms=900000))
    out.append(dict(kind="custom", fn="deadline_lemma", cfg={}))
    return out
