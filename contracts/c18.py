"""C18 -- DFI plumbing is transparent: injector mux and rate converter.

DFIInjector (real module, CSR shims): combinational validity for all signal values:
  hardware mode: every controller->PHY field of `master` equals `slave` (cs_n replicated for clam-shell, only the low bits
  are demanded of widened fields) and every PHY->controller field of `slave` equals `master`, same cycle;
  external mode: `master` equals `ext_dfi`; software mode: `master` does not depend on `slave` at all (two instances that
  differ only in the controller-side inputs produce equal outputs) and nothing is returned to the controller.
DFIRateConverter (real module with its Serializer/Deserializer instances; two phase-aligned clock domains, the slow
  domain ticks every `ratio`-th fast step): ghost copies of the slow-side inputs latched at the last slow edge and of the
  fast-side read samples of the last complete slow cycle; by induction: every command field of slow phase pi+nph*j is on
  fast phase pi during sub-cycle j of the next slow cycle (exactly once, in phase order, latency 1), write data / mask
  of the burst in sub-cycle write_delay (zero elsewhere), read data / valid from sub-cycle read_delay two slow cycles
  later.
"""
import z3
from .common import *
from vc.engine import Contract
from vc.shims import capture_locals
from litedram.dfii import DFIInjector
from litedram.phy import dfi
from litedram.phy.dfi import DFIRateConverter
from litedram.phy.utils import Serializer, Deserializer

PROPERTY = "C18"
LEVEL = "proof"
FUNCTIONS = ["litedram.dfii:DFIInjector.__init__", "litedram.dfii:PhaseInjector.__init__",
             "litedram.phy.dfi:DFIRateConverter.__init__", "litedram.phy.utils:Serializer.__init__",
             "litedram.phy.utils:Deserializer.__init__", "litedram.phy.dfi:Interface.__init__"]
ASSUMPTIONS = [
    "per configuration (ratios 2/4, PHY phases 1/2, all write/read delays, clam-shell on/off, ranks 1/2)",
    "the two clocks of the rate converter are phase aligned (as its docstring requires): the slow domain ticks on every "
    "ratio-th fast edge; synchronous design, no metastability",
    "CSR registers written by software are free inputs; CSR name/alias shims in the harness process only",
]
EXPLANATION = "combinational validity (injector) and induction with ghost latches (rate converter)"

M2S = ["address", "bank", "cas_n", "cs_n", "ras_n", "we_n", "cke", "odt", "reset_n", "act_n", "wrdata", "wrdata_en",
       "wrdata_mask", "rddata_en"]
S2M = ["rddata", "rddata_valid"]


def _m2s_signals(itf):
    return [getattr(p, n) for p in itf.phases for n in M2S if hasattr(p, n)]


def _s2m_signals(itf):
    return [getattr(p, n) for p in itf.phases for n in S2M]


def csr_inputs(inj):
    out = [inj._control.storage]
    for n in range(len(inj.slave.phases)):
        pi = getattr(inj, "pi%d" % n)
        out += [pi._command.storage, pi._command_issue.re, pi._command_issue.r, pi._address.storage,
                pi._baddress.storage, pi._wrdata.storage]
    return out


def injector_contract(cfg):
    nph, nranks, clam = cfg["nphases"], cfg["nranks"], cfg["clam"]
    inj = DFIInjector(14, 3, nranks, 16, nphases=nph, is_clam_shell=clam)
    free = _m2s_signals(inj.slave) + _s2m_signals(inj.master) + _m2s_signals(inj.ext_dfi) + [inj.ext_dfi_sel] + csr_inputs(inj)
    c = Contract("DFIInjector", inj, free, cfg=cfg)
    sel = lambda f: f.b(inj._control.fields.sel)
    ext = lambda f: f.b(inj.ext_dfi_sel)
    hw = lambda f: And(sel(f), Not(ext(f)))
    for i in range(nph):
        ps, pm, pe = inj.slave.phases[i], inj.master.phases[i], inj.ext_dfi.phases[i]
        for name in M2S:
            if not hasattr(ps, name):
                continue
            s_, m_, e_ = getattr(ps, name), getattr(pm, name), getattr(pe, name)
            if name == "cs_n" and clam:
                c.ensures("hw.p%d.cs_n_broadcast_to_both_halves" % i, lambda f, s_=s_, m_=m_: Implies(
                    hw(f), f(m_) == z3.Concat(f(s_), f(s_))))
            else:
                n = len(s_)
                c.ensures("hw.p%d.%s_passes_unchanged" % (i, name), lambda f, s_=s_, m_=m_, n=n: Implies(
                    hw(f), z3.Extract(n - 1, 0, f(m_)) == f(s_)))
            c.ensures("ext.p%d.%s_from_external_interface" % (i, name), lambda f, e_=e_, m_=m_: Implies(
                And(sel(f), ext(f)), z3.Extract(len(e_) - 1, 0, f(m_)) == f(e_)))
        for name in S2M:
            s_, m_, e_ = getattr(ps, name), getattr(pm, name), getattr(pe, name)
            c.ensures("hw.p%d.%s_returns_unchanged" % (i, name), lambda f, s_=s_, m_=m_: Implies(hw(f), f(s_) == f(m_)))
            c.ensures("sw.p%d.%s_nothing_returned_to_controller" % (i, name), lambda f, s_=s_: Implies(
                Not(hw(f)), f(s_) == 0))
    return c


class TwoInjectors(Module):
    def __init__(self, cfg):
        a = (14, 3, cfg["nranks"], 16)
        self.submodules.a = DFIInjector(*a, nphases=cfg["nphases"], is_clam_shell=cfg["clam"])
        self.submodules.b = DFIInjector(*a, nphases=cfg["nphases"], is_clam_shell=cfg["clam"])


def injector_sw_contract(cfg):
    """software mode: nothing from the controller reaches the PHY (non-interference on two instances)"""
    h = TwoInjectors(cfg)
    A, B = h.a, h.b
    shared_a = _s2m_signals(A.master) + _m2s_signals(A.ext_dfi) + [A.ext_dfi_sel] + csr_inputs(A)
    shared_b = _s2m_signals(B.master) + _m2s_signals(B.ext_dfi) + [B.ext_dfi_sel] + csr_inputs(B)
    free = _m2s_signals(A.slave) + _m2s_signals(B.slave) + shared_a + shared_b
    c = Contract("DFIInjectorNonInterference", h, free, cfg=cfg)
    c.assume("same_phy_side_and_csr_inputs", lambda f: And(*[f(x) == f(y) for x, y in zip(shared_a, shared_b)]))
    c.assume("software_or_external_mode", lambda f: Or(Not(f.b(A._control.fields.sel)), f.b(A.ext_dfi_sel)))
    for i in range(cfg["nphases"]):
        for name in M2S:
            ma, mb = getattr(A.master.phases[i], name, None), getattr(B.master.phases[i], name, None)
            if ma is None:
                continue
            c.ensures("sw.p%d.%s_independent_of_controller" % (i, name), lambda f, ma=ma, mb=mb: f(ma) == f(mb))
    return c


# ----------------------------------------------------------------------------------------------------------------------
# rate converter
# ----------------------------------------------------------------------------------------------------------------------

class RateHarness(Module):
    def __init__(self, cfg):
        r, nph = cfg["ratio"], cfg["phy_phases"]
        self.phy_dfi = dfi.Interface(13, 3, cfg.get("nranks", 1), 8 * r, nphases=nph)
        self.fast = "sys%dx" % r
        self.submodules.conv = DFIRateConverter(self.phy_dfi, clkdiv="sys", clk=self.fast, ratio=r,
                                                write_delay=cfg.get("write_delay", 0), read_delay=cfg.get("read_delay", 0))


def rate_contract(cfg):
    h = RateHarness(cfg)
    r, nph = cfg["ratio"], cfg["phy_phases"]
    wd, rdl = cfg.get("write_delay", 0), cfg.get("read_delay", 0)
    conv, phy = h.conv, h.phy_dfi
    slow = conv.dfi
    free = _m2s_signals(slow) + _s2m_signals(phy)
    c = Contract("DFIRateConverter", h, free, cfg=cfg, domains=["sys", h.fast])
    PW = max(r.bit_length(), 2)
    c.ghost("ph", PW, r - 1, lambda f: If_(f.g.ph == r - 1, BV(0, PW), f.g.ph + 1))
    c.tick_assume = lambda f: And(f.tick[h.fast], f.tick["sys"] == (f.g.ph == r - 1))
    slow_edge = lambda f: f.g.ph == r - 1
    cmd_names = [n for n in M2S if n not in ("wrdata", "wrdata_mask")]
    # ghost latches of every slow-side controller->PHY field
    for q, p in enumerate(slow.phases):
        for name in M2S:
            sig = getattr(p, name)
            c.ghost("L_%s_%d" % (name, q), len(sig), 0, lambda f, sig=sig, g="L_%s_%d" % (name, q): If_(
                slow_edge(f), f(sig), f.g[g]))
    # ghost read-side history: samples of the current slow cycle, the last complete cycle (P), and the one before (O)
    for pi, p in enumerate(phy.phases):
        for name in S2M:
            sig = getattr(p, name)
            w = len(sig)
            for j in range(r):
                c.ghost("h_%s_%d_%d" % (name, pi, j), w, 0, lambda f, sig=sig, j=j, g="h_%s_%d_%d" % (name, pi, j): If_(
                    f.g.ph == j, f(sig), f.g[g]))
            for j in range(r):
                src = (lambda f, name=name, pi=pi, j=j, sig=sig: f(sig) if j == r - 1 else f.g["h_%s_%d_%d" % (name, pi, j)])
                c.ghost("P_%s_%d_%d" % (name, pi, j), w, 0, lambda f, src=src, g="P_%s_%d_%d" % (name, pi, j): If_(
                    slow_edge(f), src(f), f.g[g]))
                c.ghost("O_%s_%d_%d" % (name, pi, j), w, 0, lambda f, g="O_%s_%d_%d" % (name, pi, j),
                        pg="P_%s_%d_%d" % (name, pi, j): If_(slow_edge(f), f.g[pg], f.g[g]))
    # ---- the property, as postconditions on the fast-side pins / slow-side read fields
    for pi, p in enumerate(phy.phases):
        for name in cmd_names:
            sig = getattr(p, name)

            def expect(f, name=name, pi=pi, w=len(sig)):
                e = f.g["L_%s_%d" % (name, pi + nph * (r - 1))]
                for j in range(r - 2, -1, -1):
                    e = If_(f.g.ph == j, f.g["L_%s_%d" % (name, pi + nph * j)], e)
                return e
            c.ensures("cmd.p%d.%s_of_slow_phase_pi_plus_nph_j_on_subcycle_j" % (pi, name),
                      lambda f, sig=sig, expect=expect: f(sig) == expect(f))
        for name in ("wrdata", "wrdata_mask"):
            sig = getattr(p, name)

            def burst(f, name=name, pi=pi):
                parts = [f.g["L_%s_%d" % (name, pi * r + j)] for j in range(r)]
                return z3.Concat(*reversed(parts)) if len(parts) > 1 else parts[0]
            c.ensures("wr.p%d.%s_burst_on_subcycle_write_delay" % (pi, name), lambda f, sig=sig, burst=burst: f(sig) == If_(
                f.g.ph == wd, burst(f), BV(0, len(sig))))
        # read side
        w = len(p.rddata)
        ow = w // r
        for j in range(r):
            sp = slow.phases[pi * r + j]
            c.ensures("rd.p%d.rddata_slice%d_from_subcycle_read_delay_two_cycles_later" % (pi, j),
                      lambda f, sp=sp, pi=pi, j=j: f(sp.rddata) == z3.Extract(
                          (j + 1) * ow - 1, j * ow, f.g["O_rddata_%d_%d" % (pi, rdl)]))
            c.ensures("rd.p%d.rddata_valid%d_from_subcycle_read_delay" % (pi, j),
                      lambda f, sp=sp, pi=pi: f(sp.rddata_valid) == f.g["O_rddata_valid_%d_%d" % (pi, rdl)])
    # ---- linking invariants: the DUT's registers equal the ghost latches
    with_regs = c.tr.regs
    sers, dess = [], []
    for m in _walk_modules(conv):
        if isinstance(m, Serializer):
            sers.append(m)
        elif isinstance(m, Deserializer):
            dess.append(m)
    c.parts = dict(sers=sers, dess=dess, h=h)
    return c


def _walk_modules(m):
    yield m
    for _n, s in getattr(m, "_submodules", []):
        yield from _walk_modules(s)


def rate_contract_full(cfg):
    """adds the linking invariants (captured internals of the Serializer / Deserializer instances)"""
    with capture_locals(Serializer.__init__, Deserializer.__init__) as cap:
        c = rate_contract(cfg)
    h = c.parts["h"]
    r = cfg["ratio"]
    sl = cap.calls.get("Serializer.__init__", [])
    dl = cap.calls.get("Deserializer.__init__", [])
    PW = max(r.bit_length(), 2)
    # serializers: cnt == ph (after the first edge), i_d == ghost latch of its input
    for k, L in enumerate(sl):
        cnt, i_d, i_in = L["cnt"], L["i_d"], L["self"].i
        c.ghost("Li_%d" % k, len(i_d), 0, lambda f, i_in=i_in, g="Li_%d" % k: If_(f.g.ph == r - 1, f.e(i_in), f.g[g]))
        c.invariant("ser%d_counter_is_subcycle_and_latch_is_last_slow_sample" % k, lambda f, cnt=cnt, i_d=i_d, k=k: And(
            zext(f(cnt), PW) == f.g.ph, f(i_d) == f.g["Li_%d" % k]))

        def li_from_L(f, i_in=i_in, k=k):
            """the serializer's input expression evaluated on the ghost latches of the slow-side fields"""
            subs = []
            for q, p in enumerate(h.conv.dfi.phases):
                for name in M2S:
                    subs.append((f(getattr(p, name)), f.g["L_%s_%d" % (name, q)]))
            return f.g["Li_%d" % k] == z3.substitute(f.e(i_in), *subs)
        c.invariant("ser%d_latch_is_its_input_function_of_the_latched_slow_fields" % k, li_from_L)
    for k, L in enumerate(dl):
        cnt, o_pre, o_pre_d, o = L["cnt"], L["o_pre"], L["o_pre_d"], L["self"].o
        c.invariant("des%d_counter_is_subcycle" % k, lambda f, cnt=cnt: zext(f(cnt), PW) == f.g.ph)
    # ghost latches of slow inputs vs serializer input latches: Li is the Cat of the L ghosts -> proved through ensures
    # deserializer state vs ghost history
    names = []
    for pi in range(cfg["phy_phases"]):
        for name in S2M:
            names.append((name, pi))
    # the deserializers were created in the order rddata(p0..), rddata_valid(p0..)
    order = [(name, pi) for name in S2M for pi in range(cfg["phy_phases"])]
    for k, L in enumerate(dl):
        name, pi = order[k]
        o_pre, o_pre_d, o = L["o_pre"], L["o_pre_d"], L["self"].o
        w = len(o) // r

        def hist(f, name=name, pi=pi, o_pre=o_pre, o_pre_d=o_pre_d, o=o, w=w):
            cl = []
            for j in range(r):
                sl_ = lambda x, j=j: z3.Extract((j + 1) * w - 1, j * w, x)
                hj = f.g["h_%s_%d_%d" % (name, pi, j)]
                # o_pre slot j holds the latest sample of sub-cycle j
                cl.append(sl_(f(o_pre)) == hj)
                cl.append(sl_(f(o)) == f.g["O_%s_%d_%d" % (name, pi, j)])
                if j < r - 1:
                    cl.append(sl_(f(o_pre_d)) == f.g["P_%s_%d_%d" % (name, pi, j)])
            return And(*cl)
        c.invariant("des%d_buffers_are_the_sample_history" % k, hist)
    # P's last slot: at a slow edge P_last := current sample, and o_pre[last] receives the same sample at that edge
    for (name, pi) in order:
        c.invariant("hist_%s_%d_last_slot_consistent" % (name, pi), lambda f, name=name, pi=pi:
                    f.g["P_%s_%d_%d" % (name, pi, r - 1)] == f.g["h_%s_%d_%d" % (name, pi, r - 1)])
    c.cover("a_slow_edge_after_start", lambda f: And(f.g.ph == r - 1, f.g["L_cas_n_0"] == 0), within=2 * r + 2)
    return c


def tasks(tier):
    out = []
    for nph in (1, 2, 4):
        for nranks, clam in ((1, False), (2, False), (1, True)):
            if tier == "quick" and nph == 4 and nranks == 2:
                continue
            cfg = dict(nphases=nph, nranks=nranks, clam=clam)
            out.append(dict(fn="injector_contract", cfg=cfg, modes=["inductive", "difftest"], weight=2, difftest_cycles=10))
            out.append(dict(fn="injector_sw_contract", cfg=cfg, modes=["inductive"], weight=2))
    rcfgs = []
    for r in (2, 4):
        for nph in (1, 2):
            delays = [(0, 0), (r - 1, 1), (1, r - 1)] if tier == "quick" else [(a, b) for a in range(r) for b in range(r)]
            for wd, rd in delays:
                rcfgs.append(dict(ratio=r, phy_phases=nph, write_delay=wd, read_delay=rd))
    rcfgs.append(dict(ratio=2, phy_phases=2, write_delay=1, read_delay=0, nranks=2))
    for cfg in rcfgs:
        out.append(dict(fn="rate_contract_full", cfg=cfg, modes=["inductive", "cover", "difftest"], weight=5,
                        difftest_cycles=60))
    return out
