"""C02 -- the DRAM command stream obeys the bank state machine.

Contracts on: BankMachine.__init__ (bank-state contract, per bank), Multiplexer/_Steerer/_CommandChooser,
Refresher (+executers), and the composition on the real LiteDRAMController with ghost DRAM bank state driven from the
*registered DFI outputs*.
"""
import z3
from .common import *
from vc.engine import Contract
from vc.shims import capture_locals
from litedram.core.bankmachine import BankMachine
from litedram.core.controller import LiteDRAMController
from litedram.core.multiplexer import Multiplexer, _Steerer, _CommandChooser
from litedram.core.refresher import Refresher
from litex.gen.genlib import misc as _misc

PROPERTY = "C02"


# ----------------------------------------------------------------------------------------------------------------------
# BankMachine
# ----------------------------------------------------------------------------------------------------------------------

class BMHarness(Module):
    """the real BankMachine plus one free ghost input: `prea` = a precharge-all reaches the DRAM this cycle"""

    def __init__(self, cfg):
        s = mk_settings(**{k: v for k, v in cfg.items() if k not in ("address_align", "n")})
        self.settings = s
        align = cfg.get("address_align", 3)
        aw = s.geom.rowbits + s.geom.colbits - align
        with capture_locals(BankMachine.__init__) as cap:
            self.submodules.bm = bm = BankMachine(cfg.get("n", 0), aw, align, s.phy.nranks, s)
        self.L = cap.of(bm)
        self.prea = Signal()
        self._sink = Signal()
        self.comb += self._sink.eq(self.prea)


def bm_views(bm, L):
    """derived command predicates shared by the C02/C03/C06 bank-machine contracts"""
    cmd = bm.cmd

    class X:
        pass
    x = X()
    x.acc = lambda f: And(f.b(cmd.valid), f.b(cmd.ready))
    x.act = lambda f: And(x.acc(f), f.b(cmd.ras), Not(f.b(cmd.cas)), Not(f.b(cmd.we)))
    x.pre = lambda f: And(x.acc(f), f.b(cmd.ras), Not(f.b(cmd.cas)), f.b(cmd.we))
    x.rw = lambda f: And(x.acc(f), f.b(cmd.cas), Not(f.b(cmd.ras)))
    x.rd = lambda f: And(x.rw(f), Not(f.b(cmd.we)))
    x.wr = lambda f: And(x.rw(f), f.b(cmd.we))
    abits = len(cmd.a)
    x.a10 = (lambda f: bit(f(cmd.a), 10)) if abits > 10 else (lambda f: z3.BoolVal(False))
    x.head = L["cmd_buffer"].source
    slicer = L["slicer"]
    rowbits = len(L["row"])
    x.rowbits = rowbits
    x.req_row = lambda f: z3.Extract(rowbits - 1, 0, zext(f.e(slicer.row(x.head.addr)), max(rowbits, 1)))
    x.req_col = lambda f: f.e(slicer.col(x.head.addr))
    return x


def bm_ghosts(c, bm, L, x, prea):
    """ghost DRAM bank state: opened by the machine's own accepted ACT, closed by its PRE / RDA / WRA and by `prea`"""
    rowbits = x.rowbits
    c.ghost("open", "bool", False,
            lambda f: If_(prea(f), False, If_(x.act(f), True, If_(Or(x.pre(f), And(x.rw(f), x.a10(f))), False, f.g.open))))
    c.ghost("row", rowbits, 0,
            lambda f: If_(x.act(f), z3.Extract(rowbits - 1, 0, f(bm.cmd.a)), f.g.row))
    c.ghost("seen", "bool", False,          # a precharge-all arrived since refresh_req rose
            lambda f: If_(Not(f.b(bm.refresh_req)), False, Or(f.g.seen, prea(f))))
    c.ghost("rreq_prev", "bool", False, lambda f: f.b(bm.refresh_req))


def bm_invariants(c, bm, L, pfx=""):
    fsm = bm.fsm
    trp_chain = ["TRP"] + fsm_chain(fsm, "TRP", "ACTIVATE") if "TRP" in fsm.encoding else []
    trcd_chain = ["TRCD"] + fsm_chain(fsm, "TRCD", "REGULAR") if "TRCD" in fsm.encoding else []
    row, row_opened = L["row"], L["row_opened"]
    G = (lambda f, n: f.g[pfx + n])
    c.invariant(pfx + "state_in_range", lambda f: state_in_range(f, fsm))
    c.invariant(pfx + "regular_tracks_dram", lambda f: Implies(
        state_is(f, fsm, "REGULAR"),
        And(f.b(row_opened) == G(f, "open"), Implies(G(f, "open"), f(row) == G(f, "row")))))
    c.invariant(pfx + "closed_in_ap_act", lambda f: Implies(
        state_is(f, fsm, "AUTOPRECHARGE", "ACTIVATE"), Not(G(f, "open"))))
    if trp_chain:
        c.invariant(pfx + "closed_in_trp", lambda f: Implies(
            state_is(f, fsm, *trp_chain), And(Not(G(f, "open")), Not(f.b(row_opened)))))
    if trcd_chain:
        c.invariant(pfx + "open_in_trcd", lambda f: Implies(
            state_is(f, fsm, *trcd_chain), And(G(f, "open"), f.b(row_opened), f(row) == G(f, "row"))))
    c.invariant(pfx + "refresh_state", lambda f: Implies(
        state_is(f, fsm, "REFRESH"), And(G(f, "rreq_prev"), Implies(G(f, "seen"), Not(G(f, "open"))))))
    c.invariant(pfx + "seen_only_in_refresh", lambda f: Implies(
        Not(state_is(f, fsm, "REFRESH")), Not(G(f, "seen"))))


def bm_contract(cfg):
    h = BMHarness(cfg)
    bm, L = h.bm, h.L
    free = [bm.req.valid, bm.req.we, bm.req.addr, bm.refresh_req, bm.cmd.ready, h.prea]
    c = Contract("BankMachine", h, free, cfg=cfg)
    x = bm_views(bm, L)
    prea = lambda f: f.b(h.prea)
    bm_ghosts(c, bm, L, x, prea)
    # environment (discharged as obligations on the refresher/multiplexer in ctrl_contract)
    c.assume("prea_only_when_granted", lambda f: Implies(prea(f), And(f.b(bm.refresh_gnt), f.b(bm.refresh_req))))
    c.assume("refresh_req_falls_only_after_prea",
             lambda f: Implies(And(f.g.rreq_prev, Not(f.b(bm.refresh_req))), f.g.seen))
    bm_invariants(c, bm, L)
    cmd = bm.cmd
    ap = L["auto_precharge"]
    s = h.settings
    c.ensures("act_only_on_precharged_bank", lambda f: Implies(x.act(f), Not(f.g.open)))
    c.ensures("act_opens_request_row", lambda f: Implies(
        x.act(f), z3.Extract(x.rowbits - 1, 0, f(cmd.a)) == x.req_row(f)))
    c.ensures("rw_only_on_open_request_row", lambda f: Implies(
        x.rw(f), And(f.g.open, f.g.row == x.req_row(f))))
    c.ensures("rw_direction_is_request_direction", lambda f: Implies(
        x.rw(f), And(f.b(x.head.valid), f.b(cmd.we) == f.b(x.head.we),
                     f.b(cmd.is_write) == f.b(x.head.we), f.b(cmd.is_read) == Not(f.b(x.head.we)))))
    c.ensures("command_is_one_of_act_pre_rd_wr", lambda f: Implies(
        f.b(cmd.valid), Or(And(f.b(cmd.ras), Not(f.b(cmd.cas)), f.b(cmd.is_cmd),
                               Not(f.b(cmd.is_read)), Not(f.b(cmd.is_write))),
                           And(f.b(cmd.cas), Not(f.b(cmd.ras)), Not(f.b(cmd.is_cmd)),
                               f.b(cmd.is_read) != f.b(cmd.is_write)))))
    c.ensures("no_command_while_refresh_granted", lambda f: Implies(f.b(bm.refresh_gnt), Not(f.b(cmd.valid))))
    c.ensures("refresh_granted_only_in_refresh_request", lambda f: Implies(
        f.b(bm.refresh_gnt), f.g.rreq_prev))
    c.ensures("bank_number", lambda f: f(cmd.ba) == BV(cfg.get("n", 0), len(cmd.ba)))
    if len(cmd.a) > 10:
        c.ensures("a10_of_column_command_is_auto_precharge", lambda f: Implies(
            x.rw(f), x.a10(f) == f.b(ap)))
        c.ensures("explicit_precharge_is_single_bank", lambda f: Implies(x.pre(f), Not(x.a10(f))))
    if not s.with_auto_precharge:
        c.ensures("no_auto_precharge_when_disabled", lambda f: Not(f.b(ap)))
    c.ensures("strobes_exactly_with_accepted_column_command", lambda f: And(
        f.b(bm.req.wdata_ready) == x.wr(f), f.b(bm.req.rdata_valid) == x.rd(f)))
    # vacuity guards
    c.cover("activate", x.act, within=40)
    c.cover("read", x.rd, within=44)
    c.cover("write", x.wr, within=44)
    c.cover("explicit_precharge", x.pre, within=50)
    c.cover("refresh_granted_then_released",
            lambda f: And(f.g.seen, Not(f.b(bm.refresh_req))), within=22)
    if s.with_auto_precharge:
        c.cover("auto_precharge_column_command", lambda f: And(x.rw(f), x.a10(f)), within=48)
    return c


BM_CONFIGS_QUICK = [
    dict(rowbits=12, colbits=10, cmd_buffer_depth=4, with_auto_precharge=True),
    dict(rowbits=13, colbits=11, cmd_buffer_depth=8, with_auto_precharge=False, address_align=3),
    dict(rowbits=11, colbits=10, cmd_buffer_depth=4, cmd_buffer_buffered=True, with_auto_precharge=True,
         tRP=3, tRCD=3, tRAS=7, tRC=10, nphases=2, address_align=2, memtype="DDR2"),
    dict(rowbits=12, colbits=9, cmd_buffer_depth=4, with_auto_precharge=True, nphases=1, address_align=0,
         memtype="SDR", tRP=1, tRCD=1, tCCD=1, tRAS=None, tRC=None, bankbits=2, n=3),
]
BM_CONFIGS_THOROUGH = BM_CONFIGS_QUICK + [
    dict(rowbits=14, colbits=10, cmd_buffer_depth=16, with_auto_precharge=True, tRP=4, tRCD=4, tRAS=9, tRC=13),
    dict(rowbits=16, colbits=12, cmd_buffer_depth=8, with_auto_precharge=True, address_align=3, nranks=2, bankbits=3, n=9),
    dict(rowbits=13, colbits=10, cmd_buffer_depth=2, with_auto_precharge=True, tWR=4, tCCD=2),
    dict(rowbits=13, colbits=10, cmd_buffer_depth=8, cmd_buffer_buffered=True, with_auto_precharge=False, tWR=4, tCCD=2),
]


def tasks(tier):
    out = []
    cfgs = BM_CONFIGS_QUICK if tier == "quick" else BM_CONFIGS_THOROUGH
    for cfg in cfgs:
        out.append(dict(fn="bm_contract", cfg=cfg, modes=["inductive", "cover", "difftest"]))
    return out

LEVEL = "proof"
FUNCTIONS = ["litedram.core.bankmachine:BankMachine.__init__", "litedram.core.bankmachine:_AddressSlicer.row",
             "litedram.core.bankmachine:_AddressSlicer.col", "litedram.common:tXXDController.__init__"]
ASSUMPTIONS = []
EXPLANATION = ""
