"""C02 -- the DRAM command stream obeys the bank state machine.

Contracts on: BankMachine.__init__ (bank-state contract, per bank), Multiplexer/_Steerer/_CommandChooser,
Refresher (+executers), and the composition on the real LiteDRAMController with ghost DRAM bank state driven from the
*registered DFI outputs*.
"""
import z3
from .common import *
from vc.engine import Contract
from vc.shims import capture_locals
from litedram.core.bankmachine import BankMachine
from litedram.core.controller import LiteDRAMController
from litedram.core.multiplexer import Multiplexer, _Steerer, _CommandChooser
from litedram.core.refresher import Refresher
from litex.gen.genlib import misc as _misc

PROPERTY = "C02"


# ----------------------------------------------------------------------------------------------------------------------
# BankMachine
# ----------------------------------------------------------------------------------------------------------------------

class BMHarness(Module):
    """the real BankMachine plus one free ghost input: `prea` = a precharge-all reaches the DRAM this cycle"""

    def __init__(self, cfg):
        s = mk_settings(**{k: v for k, v in cfg.items() if k not in ("address_align", "n")})
        self.settings = s
        align = cfg.get("address_align", 3)
        aw = s.geom.rowbits + s.geom.colbits - align
        with capture_locals(BankMachine.__init__) as cap:
            self.submodules.bm = bm = BankMachine(cfg.get("n", 0), aw, align, s.phy.nranks, s)
        self.L = cap.of(bm)
        self.prea = Signal()
        self._sink = Signal()
        self.comb += self._sink.eq(self.prea)


def bm_views(bm, L):
    """derived command predicates shared by the C02/C03/C06 bank-machine contracts"""
    cmd = bm.cmd

    class X:
        pass
    x = X()
    x.acc = lambda f: And(f.b(cmd.valid), f.b(cmd.ready))
    x.act = lambda f: And(x.acc(f), f.b(cmd.ras), Not(f.b(cmd.cas)), Not(f.b(cmd.we)))
    x.pre = lambda f: And(x.acc(f), f.b(cmd.ras), Not(f.b(cmd.cas)), f.b(cmd.we))
    x.rw = lambda f: And(x.acc(f), f.b(cmd.cas), Not(f.b(cmd.ras)))
    x.rd = lambda f: And(x.rw(f), Not(f.b(cmd.we)))
    x.wr = lambda f: And(x.rw(f), f.b(cmd.we))
    abits = len(cmd.a)
    x.a10 = (lambda f: bit(f(cmd.a), 10)) if abits > 10 else (lambda f: z3.BoolVal(False))
    x.head = L["cmd_buffer"].source
    slicer = L["slicer"]
    rowbits = len(L["row"])
    x.rowbits = rowbits
    x.req_row = lambda f: z3.Extract(rowbits - 1, 0, zext(f.e(slicer.row(x.head.addr)), max(rowbits, 1)))
    x.req_col = lambda f: f.e(slicer.col(x.head.addr))
    return x


def bm_ghosts(c, bm, L, x, prea):
    """ghost DRAM bank state: opened by the machine's own accepted ACT, closed by its PRE / RDA / WRA and by `prea`"""
    rowbits = x.rowbits
    c.ghost("open", "bool", False,
            lambda f: If_(prea(f), False, If_(x.act(f), True, If_(Or(x.pre(f), And(x.rw(f), x.a10(f))), False, f.g.open))))
    c.ghost("row", rowbits, 0,
            lambda f: If_(x.act(f), z3.Extract(rowbits - 1, 0, f(bm.cmd.a)), f.g.row))
    c.ghost("seen", "bool", False,          # a precharge-all arrived since refresh_req rose
            lambda f: If_(Not(f.b(bm.refresh_req)), False, Or(f.g.seen, prea(f))))
    c.ghost("rreq_prev", "bool", False, lambda f: f.b(bm.refresh_req))


def bm_invariants(c, bm, L, pfx=""):
    fsm = bm.fsm
    trp_chain = ["TRP"] + fsm_chain(fsm, "TRP", "ACTIVATE") if "TRP" in fsm.encoding else []
    trcd_chain = ["TRCD"] + fsm_chain(fsm, "TRCD", "REGULAR") if "TRCD" in fsm.encoding else []
    row, row_opened = L["row"], L["row_opened"]
    G = (lambda f, n: f.g[pfx + n])
    c.invariant(pfx + "state_in_range", lambda f: state_in_range(f, fsm))
    c.invariant(pfx + "regular_tracks_dram", lambda f: Implies(
        state_is(f, fsm, "REGULAR"),
        And(f.b(row_opened) == G(f, "open"), Implies(G(f, "open"), f(row) == G(f, "row")))))
    c.invariant(pfx + "closed_in_ap_act", lambda f: Implies(
        state_is(f, fsm, "AUTOPRECHARGE", "ACTIVATE"), Not(G(f, "open"))))
    if trp_chain:
        c.invariant(pfx + "closed_in_trp", lambda f: Implies(
            state_is(f, fsm, *trp_chain), And(Not(G(f, "open")), Not(f.b(row_opened)))))
    if trcd_chain:
        c.invariant(pfx + "open_in_trcd", lambda f: Implies(
            state_is(f, fsm, *trcd_chain), And(G(f, "open"), f.b(row_opened), f(row) == G(f, "row"))))
    c.invariant(pfx + "refresh_state", lambda f: Implies(
        state_is(f, fsm, "REFRESH"), And(G(f, "rreq_prev"), Implies(G(f, "seen"), Not(G(f, "open"))))))
    c.invariant(pfx + "seen_only_in_refresh", lambda f: Implies(
        Not(state_is(f, fsm, "REFRESH")), Not(G(f, "seen"))))


def bm_contract(cfg):
    h = BMHarness(cfg)
    bm, L = h.bm, h.L
    free = [bm.req.valid, bm.req.we, bm.req.addr, bm.refresh_req, bm.cmd.ready, h.prea]
    c = Contract("BankMachine", h, free, cfg=cfg)
    x = bm_views(bm, L)
    prea = lambda f: f.b(h.prea)
    bm_ghosts(c, bm, L, x, prea)
    # environment (discharged as obligations on the refresher/multiplexer in ctrl_contract)
    c.assume("prea_only_when_granted", lambda f: Implies(prea(f), And(f.b(bm.refresh_gnt), f.b(bm.refresh_req))))
    c.assume("refresh_req_falls_only_after_prea",
             lambda f: Implies(And(f.g.rreq_prev, Not(f.b(bm.refresh_req))), f.g.seen))
    bm_invariants(c, bm, L)
    cmd = bm.cmd
    ap = L["auto_precharge"]
    s = h.settings
    c.ensures("act_only_on_precharged_bank", lambda f: Implies(x.act(f), Not(f.g.open)))
    c.ensures("act_opens_request_row", lambda f: Implies(
        x.act(f), z3.Extract(x.rowbits - 1, 0, f(cmd.a)) == x.req_row(f)))
    c.ensures("rw_only_on_open_request_row", lambda f: Implies(
        x.rw(f), And(f.g.open, f.g.row == x.req_row(f))))
    c.ensures("rw_direction_is_request_direction", lambda f: Implies(
        x.rw(f), And(f.b(x.head.valid), f.b(cmd.we) == f.b(x.head.we),
                     f.b(cmd.is_write) == f.b(x.head.we), f.b(cmd.is_read) == Not(f.b(x.head.we)))))
    c.ensures("command_is_one_of_act_pre_rd_wr", lambda f: Implies(
        f.b(cmd.valid), Or(And(f.b(cmd.ras), Not(f.b(cmd.cas)), f.b(cmd.is_cmd),
                               Not(f.b(cmd.is_read)), Not(f.b(cmd.is_write))),
                           And(f.b(cmd.cas), Not(f.b(cmd.ras)), Not(f.b(cmd.is_cmd)),
                               f.b(cmd.is_read) != f.b(cmd.is_write)))))
    c.ensures("no_command_while_refresh_granted", lambda f: Implies(f.b(bm.refresh_gnt), Not(f.b(cmd.valid))))
    c.ensures("refresh_granted_only_in_refresh_request", lambda f: Implies(
        f.b(bm.refresh_gnt), f.g.rreq_prev))
    c.ensures("bank_number", lambda f: f(cmd.ba) == BV(cfg.get("n", 0), len(cmd.ba)))
    if len(cmd.a) > 10:
        c.ensures("a10_of_column_command_is_auto_precharge", lambda f: Implies(
            x.rw(f), x.a10(f) == f.b(ap)))
        c.ensures("explicit_precharge_is_single_bank", lambda f: Implies(x.pre(f), Not(x.a10(f))))
    if not s.with_auto_precharge:
        c.ensures("no_auto_precharge_when_disabled", lambda f: Not(f.b(ap)))
    c.ensures("strobes_exactly_with_accepted_column_command", lambda f: And(
        f.b(bm.req.wdata_ready) == x.wr(f), f.b(bm.req.rdata_valid) == x.rd(f)))
    # vacuity guards
    c.cover("activate", x.act, within=40)
    c.cover("read", x.rd, within=44)
    c.cover("write", x.wr, within=44)
    c.cover("explicit_precharge", x.pre, within=50)
    c.cover("refresh_granted_then_released",
            lambda f: And(f.g.seen, Not(f.b(bm.refresh_req))), within=22)
    if s.with_auto_precharge:
        c.cover("auto_precharge_column_command", lambda f: And(x.rw(f), x.a10(f)), within=48)
    return c


BM_CONFIGS_QUICK = [
    dict(rowbits=12, colbits=10, cmd_buffer_depth=4, with_auto_precharge=True),
    dict(rowbits=13, colbits=11, cmd_buffer_depth=8, with_auto_precharge=False, address_align=3),
    dict(rowbits=11, colbits=10, cmd_buffer_depth=4, cmd_buffer_buffered=True, with_auto_precharge=True,
         tRP=3, tRCD=3, tRAS=7, tRC=10, nphases=2, address_align=2, memtype="DDR2"),
    dict(rowbits=12, colbits=9, cmd_buffer_depth=4, with_auto_precharge=True, nphases=1, address_align=0,
         memtype="SDR", tRP=1, tRCD=1, tCCD=1, tRAS=None, tRC=None, bankbits=2, n=3),
]
BM_CONFIGS_THOROUGH = BM_CONFIGS_QUICK + [
    dict(rowbits=14, colbits=10, cmd_buffer_depth=16, with_auto_precharge=True, tRP=4, tRCD=4, tRAS=9, tRC=13),
    dict(rowbits=16, colbits=12, cmd_buffer_depth=8, with_auto_precharge=True, address_align=3, nranks=2, bankbits=3, n=9),
    dict(rowbits=13, colbits=10, cmd_buffer_depth=2, with_auto_precharge=True, tWR=4, tCCD=2),
    dict(rowbits=13, colbits=10, cmd_buffer_depth=8, cmd_buffer_buffered=True, with_auto_precharge=False, tWR=4, tCCD=2),
]


CTRL_BASE = dict(bankbits=1, rowbits=11, colbits=10, nphases=2, memtype="DDR2", cl=3, cwl=2, read_latency=3,
                 write_latency=1, cmd_buffer_depth=4, tRRD=2, tRFC=3, tRAS=3, tRC=5, databits=4, dfi_databits=8)


def _cc(**kw):
    d = dict(CTRL_BASE)
    d.update(kw)
    return d


CTRL_CONFIGS_QUICK = [
    _cc(),
    _cc(nphases=4, memtype="DDR3", cl=6, cwl=5, read_latency=5, rdphase=2, wrphase=3, bankbits=2, with_auto_precharge=False),
    _cc(nphases=1, memtype="SDR", cl=2, cwl=None, read_latency=4, write_latency=0, rdphase=0, wrphase=0, tRRD=None),
    _cc(nranks=2, tZQCS=4, refresh_zqcs_freq=1e6, nphases=4, memtype="DDR3", cl=6, cwl=5, read_latency=5, rdphase=1, wrphase=2),
]
CTRL_CONFIGS_THOROUGH = CTRL_CONFIGS_QUICK + [
    _cc(tRP=3, tRCD=3, tRAS=7, tRC=10),
    _cc(bankbits=2, nranks=2, nphases=2, cmd_buffer_depth=8, cmd_buffer_buffered=True),
    _cc(nphases=4, memtype="DDR4", cl=9, cwl=9, read_latency=6, rdphase=3, wrphase=0, bankbits=2, tZQCS=8, refresh_zqcs_freq=1e6,
        tFAW=6, tCCD=2),
    _cc(nphases=2, memtype="DDR", cl=3, cwl=None, read_latency=3, rdphase=1, wrphase=0, colbits=11, rowbits=13,
        with_auto_precharge=True),
]


def tasks(tier):
    out = []
    cfgs = BM_CONFIGS_QUICK if tier == "quick" else BM_CONFIGS_THOROUGH
    for cfg in cfgs:
        out.append(dict(fn="bm_contract", cfg=cfg, modes=["inductive", "cover", "difftest"]))
    for cfg in (CTRL_CONFIGS_QUICK if tier == "quick" else CTRL_CONFIGS_THOROUGH):
        out.append(dict(fn="ctrl_contract", cfg=cfg, modes=["inductive", "cover", "difftest"], weight=10,
                        difftest_cycles=150 if tier == "quick" else 1500, timeout_ms=600000))
    return out


LEVEL = "proof"
FUNCTIONS = ["litedram.core.bankmachine:BankMachine.__init__", "litedram.core.bankmachine:_AddressSlicer.row",
             "litedram.core.bankmachine:_AddressSlicer.col", "litedram.common:tXXDController.__init__",
             "litedram.core.controller:LiteDRAMController.__init__", "litedram.core.multiplexer:Multiplexer.__init__",
             "litedram.core.multiplexer:_Steerer.__init__", "litedram.core.multiplexer:_CommandChooser.__init__",
             "litedram.core.refresher:Refresher.__init__", "litedram.core.refresher:RefreshExecuter.__init__",
             "litedram.core.refresher:RefreshSequencer.__init__", "litedram.core.refresher:ZQCSExecuter.__init__",
             "litedram.core.refresher:RefreshTimer.__init__", "litedram.core.refresher:RefreshPostponer.__init__",
             "litex.gen.genlib.misc:timeline", "migen.genlib.roundrobin:RoundRobin.__init__"]
ASSUMPTIONS = []
EXPLANATION = ""


# ----------------------------------------------------------------------------------------------------------------------
# Controller-level composition: real LiteDRAMController (bank machines + multiplexer + steerer + refresher)
# ----------------------------------------------------------------------------------------------------------------------

class CtrlHarness(Module):
    def __init__(self, cfg):
        cfg = dict(cfg)
        self.clk_freq = cfg.pop("clk_freq", 100e6)
        s = mk_settings(**cfg)
        self.settings = s
        from litedram.common import tXXDController, tFAWController
        with capture_locals(BankMachine.__init__, _misc.timeline, Multiplexer.__init__, Refresher.__init__,
                            _Steerer.__init__, tXXDController.__init__, tFAWController.__init__) as cap:
            self.submodules.ctrl = ctrl = LiteDRAMController(s.phy, s.geom, s.timing, self.clk_freq, s)
        self.bms = [cap.of(bm) for bm in ctrl.multiplexer_bank_machines] if hasattr(ctrl, "multiplexer_bank_machines") \
            else cap.calls["BankMachine.__init__"]
        self.timelines = cap.calls.get("timeline", [])
        self.cap_calls = cap.calls
        self.ML = cap.of(ctrl.multiplexer)
        self.RL = cap.of(ctrl.refresher)
        self.SL = cap.calls["_Steerer.__init__"][0]


def ctrl_free_inputs(ctrl):
    free = []
    for i in range(ctrl.interface.nbanks):
        b = getattr(ctrl.interface, "bank%d" % i)
        free += [b.valid, b.we, b.addr]
    free += [ctrl.interface.wdata, ctrl.interface.wdata_we]
    for ph in ctrl.dfi.phases:
        free += [ph.rddata, ph.rddata_valid]
    return free


class DfiDecode:
    """JEDEC command decode of one DFI phase (registered steerer outputs)"""

    def __init__(self, ph, nranks, bankbits):
        self.ph, self.nranks, self.bankbits = ph, nranks, bankbits

    def sel(self, f, rank):
        return Not(bit(f(self.ph.cs_n), rank))

    def _c(self, f, ras, cas, we):
        ph = self.ph
        return And(f.b(ph.ras_n) != ras, f.b(ph.cas_n) != cas, f.b(ph.we_n) != we)

    def act(self, f): return self._c(f, True, False, False)
    def pre(self, f): return self._c(f, True, False, True)
    def ref(self, f): return self._c(f, True, True, False)
    def rd(self, f): return self._c(f, False, True, False)
    def wr(self, f): return self._c(f, False, True, True)
    def zqc(self, f): return self._c(f, False, False, True)
    def mrs(self, f): return self._c(f, True, True, True)
    def nop(self, f): return self._c(f, False, False, False)
    def a10(self, f): return bit(f(self.ph.address), 10)

    def bank_is(self, f, b):
        return f(self.ph.bank) == BV(b, len(self.ph.bank))


def ctrl_contract(cfg):
    h = CtrlHarness(cfg)
    ctrl, s = h.ctrl, h.settings
    mux, refr = ctrl.multiplexer, ctrl.refresher
    c = Contract("LiteDRAMController", h, ctrl_free_inputs(ctrl), k=cfg.get("k", 2) if False else 2, cfg=cfg)
    nranks, bankbits = s.phy.nranks, s.geom.bankbits
    nb = 1 << bankbits
    nph = s.phy.nphases
    rc = refr.cmd
    racc = lambda f: And(f.b(rc.valid), f.b(rc.ready))
    prea = lambda f: And(racc(f), f.b(rc.ras), Not(f.b(rc.cas)), f.b(rc.we))
    r_ref = lambda f: And(racc(f), f.b(rc.ras), f.b(rc.cas), Not(f.b(rc.we)))
    r_zq = lambda f: And(racc(f), Not(f.b(rc.ras)), Not(f.b(rc.cas)), f.b(rc.we))
    dec = [DfiDecode(ph, nranks, bankbits) for ph in ctrl.dfi.phases]
    BM = []
    for i, L in enumerate(h.bms):
        bm = L["self"]
        x = bm_views(bm, L)
        BM.append((bm, L, x))
    c.ghost("rreq_prev", "bool", False, lambda f: f.b(rc.valid))
    rowbits = s.geom.rowbits
    for i, (bm, L, x) in enumerate(BM):
        P = "b%d_" % i
        c.ghost(P + "open", "bool", False, lambda f, x=x, P=P: If_(
            prea(f), False, If_(x.act(f), True, If_(Or(x.pre(f), And(x.rw(f), x.a10(f))), False, f.g[P + "open"]))))
        c.ghost(P + "row", rowbits, 0, lambda f, x=x, bm=bm, P=P: If_(
            x.act(f), z3.Extract(rowbits - 1, 0, f(bm.cmd.a)), f.g[P + "row"]))
        c.ghost(P + "seen", "bool", False, lambda f, bm=bm, P=P: If_(
            Not(f.b(bm.refresh_req)), False, Or(f.g[P + "seen"], prea(f))))
        c.ghost(P + "rreq_prev", "bool", False, lambda f, bm=bm: f.b(bm.refresh_req))
        # controller's belief one cycle ago (= what the DRAM must be in before the command now on the DFI pins)
        c.ghost(P + "p_open", "bool", False, lambda f, P=P: f.g[P + "open"])
        c.ghost(P + "p_row", rowbits, 0, lambda f, P=P: f.g[P + "row"])
        # the bank machine's command accepted in the previous cycle (what must be on the pins now)
        c.ghost(P + "pc", 3, 0, lambda f, x=x: If_(x.act(f), BV(1, 3), If_(x.pre(f), BV(2, 3), If_(
            x.rd(f), BV(3, 3), If_(x.wr(f), BV(4, 3), BV(0, 3))))))
        c.ghost(P + "pc_a", len(bm.cmd.a), 0, lambda f, bm=bm: f(bm.cmd.a))
        c.ghost(P + "pc_row", rowbits, 0, lambda f, x=x: x.req_row(f))
        # reference DRAM bank state driven by the DFI pins only
        rank, bank = i >> bankbits, i & (nb - 1)

        def dfi_upd(f, P=P, rank=rank, bank=bank):
            o, r = f.g[P + "d_open"], f.g[P + "d_row"]
            for d in dec:
                sel = d.sel(f, rank)
                tgt = And(sel, d.bank_is(f, bank))
                closes = Or(And(sel, d.pre(f), Or(d.a10(f), d.bank_is(f, bank))), And(tgt, Or(d.rd(f), d.wr(f)), d.a10(f)))
                o, r = (If_(And(tgt, d.act(f)), True, If_(closes, False, o)),
                        If_(And(tgt, d.act(f)), z3.Extract(rowbits - 1, 0, f(d.ph.address)), r))
            return o, r
        c.ghost(P + "d_open", "bool", False, lambda f, u=dfi_upd: u(f)[0])
        c.ghost(P + "d_row", rowbits, 0, lambda f, u=dfi_upd: u(f)[1])
    c.ghost("pr", 2, 0, lambda f: If_(prea(f), BV(1, 2), If_(r_ref(f), BV(2, 2), If_(r_zq(f), BV(3, 2), BV(0, 2)))))

    # ---- per-bank invariants (the BankMachine contract's) + the environment assumptions now as obligations
    for i, (bm, L, x) in enumerate(BM):
        P = "b%d_" % i
        bm_invariants(c, bm, L, pfx=P)
        c.ensures(P + "env.prea_only_when_granted", lambda f, bm=bm: Implies(
            prea(f), And(f.b(bm.refresh_gnt), f.b(bm.refresh_req))))
        c.invariant(P + "env.refresh_req_falls_only_after_prea", lambda f, bm=bm, P=P: Implies(
            And(f.g[P + "rreq_prev"], Not(f.b(bm.refresh_req))), f.g[P + "seen"]))
    # ---- linking invariants multiplexer <-> refresher <-> bank machines
    rfsm, mfsm = refr.fsm, mux.fsm
    tl = h.timelines
    cnt = tl[0]["counter"]
    zcnt = tl[1]["counter"] if len(tl) > 1 else None
    tRP = s.timing.tRP
    all_bm_refresh = lambda f: And(*[state_is(f, bm.fsm, "REFRESH") for bm, L, x in BM])
    all_twtp = lambda f: And(*[f.b(bm.refresh_gnt) for bm, L, x in BM])     # every bank machine keeps granting
    all_seen = lambda f: And(*[f.g["b%d_seen" % i] for i in range(len(BM))])
    doing = ["DO-REFRESH"] + (["DO-ZQCS"] if "DO-ZQCS" in rfsm.encoding else [])
    c.invariant("fsm_states_in_range", lambda f: And(state_in_range(f, rfsm), state_in_range(f, mfsm)))
    c.invariant("mux_refresh_implies_banks_parked", lambda f: Implies(
        state_is(f, mfsm, "REFRESH"),
        And(state_is(f, rfsm, "WAIT-BANK-MACHINES", *doing), all_bm_refresh(f), all_twtp(f))))
    c.invariant("refresher_busy_implies_mux_refresh", lambda f: Implies(
        state_is(f, rfsm, *doing), state_is(f, mfsm, "REFRESH")))
    zero_cmd = lambda f: And(f(rc.ras) == 0, f(rc.cas) == 0, f(rc.we) == 0)
    idle_cnt = lambda f: And(f(cnt) == 0, f(zcnt) == 0) if zcnt is not None else f(cnt) == 0
    c.invariant("refresher_idle_outside_sequences", lambda f: Implies(
        Not(state_is(f, rfsm, *doing)), And(idle_cnt(f), zero_cmd(f))))
    if zcnt is not None:
        c.invariant("one_timeline_at_a_time", lambda f: And(
            Implies(state_is(f, rfsm, "DO-REFRESH"), f(zcnt) == 0),
            Implies(state_is(f, rfsm, "DO-ZQCS"), f(cnt) == 0)))
    any_cnt_ge2 = lambda f: Or(UGE(f(cnt), 2), UGE(f(zcnt), 2)) if zcnt is not None else UGE(f(cnt), 2)
    c.invariant("after_prea_every_bank_has_seen_it", lambda f: Implies(
        And(state_is(f, rfsm, *doing), any_cnt_ge2(f)), all_seen(f)))
    is1 = lambda f: Or(f(cnt) == 1, f(zcnt) == 1) if zcnt is not None else f(cnt) == 1
    c.invariant("prea_register_only_at_count_1", lambda f: Implies(
        And(f.b(rc.ras), Not(f.b(rc.cas))), And(is1(f), f.b(rc.we), bit(f(rc.a), 10))))
    c.invariant("ref_register_only_after_trp", lambda f: Implies(
        And(f.b(rc.ras), f.b(rc.cas)), And(f(cnt) == tRP + 1, Not(f.b(rc.we)))))
    if zcnt is not None:
        c.invariant("zqcs_register_only_after_trp", lambda f: Implies(
            And(Not(f.b(rc.ras)), f.b(rc.we)), And(f(zcnt) == tRP + 1, Not(f.b(rc.cas)))))
    else:
        c.invariant("no_other_refresher_opcode", lambda f: Implies(Not(f.b(rc.ras)), And(Not(f.b(rc.we)), Not(f.b(rc.cas)))))
    seq = refr.sequencer
    dones = [seq.done] + ([refr.zqs_executer.done] if zcnt is not None else [])
    c.invariant("done_only_after_prea_seen", lambda f: Implies(
        Or(*[f.b(d) for d in dones]), And(all_seen(f), state_is(f, rfsm, *doing))))
    # ---- DFI pins <-> what the steerer selected in the previous cycle (ghost copy of the selection, per phase)
    steerer = h.SL["self"]
    commands = h.SL["commands"]
    babits = len(rc.ba)

    def steered(f, p):
        """(kind, ba, a) of the command steered to phase p this cycle: kind 0 none, 1 ACT, 2 PRE, 3 RD, 4 WR,
        5 PREA(refresher), 6 REF, 7 ZQCS, taken from the selected source's accepted command"""
        sel = f(steerer.sel[p])
        kind, ba, a = BV(0, 3), BV(0, babits), BV(0, len(rc.a))
        for idx, cmd in enumerate(commands):
            if not hasattr(cmd, "valid"):
                continue
            acc = And(f.b(cmd.valid), f.b(cmd.ready))
            ras, cas, we = f.b(cmd.ras), f.b(cmd.cas), f.b(cmd.we)
            if cmd is rc:
                k = If_(And(ras, Not(cas), we), BV(5, 3), If_(And(ras, cas, Not(we)), BV(6, 3), If_(
                    And(Not(ras), Not(cas), we), BV(7, 3), BV(0, 3))))
            else:
                k = If_(And(ras, Not(cas), Not(we)), BV(1, 3), If_(And(ras, Not(cas), we), BV(2, 3), If_(
                    And(Not(ras), cas, Not(we)), BV(3, 3), If_(And(Not(ras), cas, we), BV(4, 3), BV(0, 3)))))
            here = sel == BV(idx, sel.size())
            kind = If_(And(here, acc), k, kind)
            ba = If_(here, zext(f(cmd.ba), babits), ba)
            a = If_(here, f(cmd.a), a)
        return kind, ba, a
    for p in range(nph):
        c.ghost("pk%d" % p, 3, 0, lambda f, p=p: steered(f, p)[0])
        c.ghost("pb%d" % p, babits, 0, lambda f, p=p: steered(f, p)[1])
        c.ghost("pa%d" % p, len(rc.a), 0, lambda f, p=p: steered(f, p)[2])

    def pins_are(f, p):
        d = dec[p]
        k, ba, a = f.g["pk%d" % p], f.g["pb%d" % p], f.g["pa%d" % p]
        bank = z3.Extract(bankbits - 1, 0, ba) if bankbits else None
        cl = [d.nop(f) == (k == 0), d.act(f) == (k == 1), d.pre(f) == Or(k == 2, k == 5), d.rd(f) == (k == 3),
              d.wr(f) == (k == 4), d.ref(f) == (k == 6), d.zqc(f) == (k == 7), Not(d.mrs(f)),
              f.b(d.ph.rddata_en) == (k == 3), f.b(d.ph.wrdata_en) == (k == 4),
              Implies(k != 0, eqv(f(d.ph.address), a))]
        if bankbits:
            cl.append(Implies(k != 0, eqv(f(d.ph.bank), bank)))
        if nranks > 1:
            rank = z3.Extract(babits - 1, bankbits, ba)
            cl.append(Implies(And(k != 0, ULT(k, 5)), And(*[
                Implies(rank == BV(r, rank.size()), f(d.ph.cs_n) == BV(((1 << nranks) - 1) ^ (1 << r), nranks))
                for r in range(nranks)])))
            cl.append(Implies(UGE(k, 5), f(d.ph.cs_n) == 0))
        else:
            cl.append(Implies(k != 0, f(d.ph.cs_n) == 0))
        return And(*cl)
    for p in range(nph):
        c.invariant("p%d_pins_carry_steered_command" % p, lambda f, p=p: pins_are(f, p))
        c.invariant("p%d_steered_command_placement" % p, lambda f, p=p: And(
            Implies(f.g["pk%d" % p] == 3, z3.BoolVal(p == s.phy.rdphase)),
            Implies(f.g["pk%d" % p] == 4, z3.BoolVal(p == s.phy.wrphase)),
            Implies(f.g["pk%d" % p] == 5, bit(f.g["pa%d" % p], 10)),
            Implies(UGE(f.g["pk%d" % p], 5), And(z3.BoolVal(p == 0), f.g.pr == z3.Extract(1, 0, f.g["pk%d" % p] - 4))),
            Implies(And(f.g.pr != 0), f.g["pk%d" % p] == (zext(f.g.pr, 3) + 4 if p == 0 else BV(0, 3)))))
    for i in range(len(BM)):
        P = "b%d_" % i

        def bank_cmd_on_one_phase(f, i=i, P=P):
            pc = f.g[P + "pc"]
            on = [And(f.g["pk%d" % p] == pc, f.g["pb%d" % p] == BV(i, babits), eqv(f.g["pa%d" % p], f.g[P + "pc_a"]))
                  for p in range(nph)]
            cl = [Implies(pc != 0, Or(*on))]
            for p in range(nph):
                k = f.g["pk%d" % p]
                cl.append(Implies(And(k != 0, ULT(k, 5), f.g["pb%d" % p] == BV(i, babits)), on[p]))
            for p in range(nph):
                for q in range(p + 1, nph):
                    cl.append(Not(And(on[p], on[q], pc != 0)))
            return And(*cl)
        c.invariant(P + "steered_commands_are_the_bank_machines", bank_cmd_on_one_phase)
        c.invariant(P + "reference_dram_equals_controller_belief", lambda f, P=P: And(
            f.g[P + "d_open"] == f.g[P + "p_open"], Implies(f.g[P + "p_open"], f.g[P + "d_row"] == f.g[P + "p_row"])))
        c.invariant(P + "previous_command_was_legal", lambda f, P=P: And(
            Implies(f.g[P + "pc"] == 1, Not(f.g[P + "p_open"])),
            Implies(Or(f.g[P + "pc"] == 3, f.g[P + "pc"] == 4),
                    And(f.g[P + "p_open"], f.g[P + "p_row"] == f.g[P + "pc_row"])),
            Implies(f.g.pr != 0, f.g[P + "pc"] == 0),
            Implies(f.g[P + "pc"] == 2, Not(bit(f.g[P + "pc_a"], 10))),      # explicit precharge is single-bank
            Implies(Or(f.g.pr == 2, f.g.pr == 3), Not(f.g[P + "p_open"]))))
    d0 = dec[0]

    # ---- the property's clauses, on the DFI pins against the reference DRAM bank state
    def seq_open(f, i, upto):
        """reference state of bank i after the commands on phases < upto of this cycle"""
        P = "b%d_" % i
        rank, bank = i >> bankbits, i & (nb - 1)
        o, r = f.g[P + "d_open"], f.g[P + "d_row"]
        for d in dec[:upto]:
            sel = d.sel(f, rank)
            tgt = And(sel, d.bank_is(f, bank))
            closes = Or(And(sel, d.pre(f), Or(d.a10(f), d.bank_is(f, bank))), And(tgt, Or(d.rd(f), d.wr(f)), d.a10(f)))
            o, r = (If_(And(tgt, d.act(f)), True, If_(closes, False, o)),
                    If_(And(tgt, d.act(f)), z3.Extract(rowbits - 1, 0, f(d.ph.address)), r))
        return o, r
    rdphase, wrphase = s.phy.rdphase, s.phy.wrphase
    for p, d in enumerate(dec):
        for i in range(len(BM)):
            rank, bank = i >> bankbits, i & (nb - 1)
            P = "b%d_" % i
            tgt = lambda f, d=d, rank=rank, bank=bank: And(d.sel(f, rank), d.bank_is(f, bank))
            c.ensures("dfi.p%d.b%d.activate_only_precharged_bank" % (p, i), lambda f, d=d, tgt=tgt, i=i, p=p: Implies(
                And(tgt(f), d.act(f)), Not(seq_open(f, i, p)[0])))
            c.ensures("dfi.p%d.b%d.read_write_only_open_request_row" % (p, i), lambda f, d=d, tgt=tgt, i=i, p=p, P=P: Implies(
                And(tgt(f), Or(d.rd(f), d.wr(f))),
                And(seq_open(f, i, p)[0], seq_open(f, i, p)[1] == f.g[P + "pc_row"])))
            c.ensures("dfi.p%d.b%d.refresh_zqcs_only_all_precharged" % (p, i), lambda f, d=d, i=i, p=p, rank=rank: Implies(
                And(d.sel(f, rank), Or(d.ref(f), d.zqc(f))), Not(seq_open(f, i, p)[0])))
        c.ensures("dfi.p%d.read_on_read_phase_with_strobe" % p, lambda f, d=d, p=p: And(
            Implies(d.rd(f), z3.BoolVal(p == rdphase)), f.b(d.ph.rddata_en) == d.rd(f)))
        c.ensures("dfi.p%d.write_on_write_phase_with_strobe" % p, lambda f, d=d, p=p: And(
            Implies(d.wr(f), z3.BoolVal(p == wrphase)), f.b(d.ph.wrdata_en) == d.wr(f)))
        c.ensures("dfi.p%d.never_mode_register_set" % p, lambda f, d=d: Not(d.mrs(f)))
        if nranks > 1:
            c.ensures("dfi.p%d.chip_select_one_rank_or_all_for_refresh" % p, lambda f, d=d: And(
                Implies(Or(d.act(f), d.rd(f), d.wr(f), And(d.pre(f), Not(d.a10(f)))),
                        Or(*[f(d.ph.cs_n) == BV(((1 << nranks) - 1) ^ (1 << r), nranks) for r in range(nranks)])),
                Implies(Or(d.ref(f), d.zqc(f), And(d.pre(f), d.a10(f))), f(d.ph.cs_n) == 0)))
    c.ensures("cke_high_all_ranks", lambda f: And(*[f(d.ph.cke) == BV((1 << nranks) - 1, nranks) for d in dec]))
    c.parts = dict(h=h, BM=BM, dec=dec, steered=steered, prea=prea, r_ref=r_ref, r_zq=r_zq, cnt=cnt, zcnt=zcnt, rc=rc,
                   doing=doing, steerer=steerer)
    # vacuity guards
    c.cover("dfi_activate", lambda f: Or(*[d.act(f) for d in dec]), within=40)
    c.cover("dfi_read", lambda f: Or(*[d.rd(f) for d in dec]), within=46)
    c.cover("dfi_write", lambda f: Or(*[d.wr(f) for d in dec]), within=46)
    return c
