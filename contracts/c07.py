"""C07 -- width-converted ports behave like one memory at the narrower or wider width.

Real LiteDRAMNativePortConverter (Up / Down converter with LiteX StrideConverter / FIFOs as elaborated) between
  * a MASTER obeying the property's premise (command held until accepted, write data available no later than its
    command and held, read data always accepted; any addresses, byte enables, cmd.last / flush usage) and
  * the native-port memory ENVIRONMENT (NativePortSpec: arbitrary acceptance / strobe / return timing, per-kind order,
    no overtaking on the same address).
Watched byte (symbolic user address, lane, initial content): every read response carries the byte last written in user
command order; one response per read; write data is present whenever the controller side takes it.
The end-to-end clauses are checked by BOUNDED unrolling from reset (all inputs symbolic) -- labelled bounded.
Proved lemmas (unbounded): down-converter command splitting (N sub-commands addr*N+i in order, same direction).
"""
import z3
from .common import *
from vc.engine import Contract
from vc.shims import capture_locals
from litedram.frontend.adapter import (LiteDRAMNativePortConverter, LiteDRAMNativePortDownConverter,
                                       LiteDRAMNativePortUpConverter)
from litedram.core.crossbar import LiteDRAMCrossbar
from .nativeport import add_memory_env, add_master

PROPERTY = "C07"
LEVEL = "other"
FUNCTIONS = ["litedram.frontend.adapter:LiteDRAMNativePortUpConverter.__init__",
             "litedram.frontend.adapter:LiteDRAMNativePortDownConverter.__init__",
             "litedram.frontend.adapter:LiteDRAMNativePortConverter.__init__",
             "litedram.core.crossbar:LiteDRAMCrossbar.get_port"]
ASSUMPTIONS = [
    "end-to-end clauses: bounded unrolling from reset to the stated depth with all master / memory-side inputs symbolic "
    "(never counted as proved); environment = NativePortSpec (guaranteed by the core, C01) with at most Q outstanding "
    "commands; master queues bounded (Qw beats / Qr reads in flight)",
    "write-data strobes of the memory side come at least one cycle after the command was accepted (true of the core: "
    "write_latency+1 >= 1)",
    "first/last markers of the native DATA streams (wdata, rdata) are 0, as in the core and all in-tree masters",
    "per configuration (ratios, reverse, modes)",
]
EXPLANATION = ("bounded contract check (master premise + NativePortSpec environment + watched byte) on the real converters; "
               "unbounded lemmas for the down-converter's command splitting")


class ConvHarness(Module):
    def __init__(self, cfg):
        wf, wt = cfg["from"], cfg["to"]
        ratio_up = wt // wf if wt > wf else None
        aw_to = cfg.get("aw_to", 6)
        if wt > wf:
            aw_from = aw_to + log2_int(wt // wf)
        else:
            aw_from = aw_to - log2_int(wf // wt)
        self.pf = LiteDRAMNativePort("both", aw_from, wf)
        self.pt = LiteDRAMNativePort("both", aw_to, wt)
        self.submodules.conv = LiteDRAMNativePortConverter(self.pf, self.pt, reverse=cfg.get("reverse", False))
        self.m_byte = Signal(8)
        self.m_en = Signal()
        self._s = Signal(9)
        self.comb += self._s.eq(Cat(self.m_byte, self.m_en))


def conv_contract(cfg):
    h = ConvHarness(cfg)
    pf, pt = h.pf, h.pt
    wf, wt = cfg["from"], cfg["to"]
    rev = cfg.get("reverse", False)
    # first/last of the DATA streams are never driven by the core or by native masters: left at their reset value 0
    free = [pf.cmd.valid, pf.cmd.we, pf.cmd.addr, pf.cmd.last, pf.cmd.first, pf.wdata.data, pf.wdata.we, pf.wdata.valid,
            pf.rdata.ready, pf.flush,
            pt.cmd.ready, pt.wdata.ready, pt.rdata.valid, pt.rdata.data, h.m_byte, h.m_en]
    c = Contract("NativePortConverter", h, free, cfg=cfg)
    nbf, nbt = wf // 8, wt // 8
    UA = c.rigid("UA", len(pf.cmd.addr))
    LW = max((nbf - 1).bit_length(), 1)
    lane = c.rigid("lane", LW)
    init = c.rigid("init", 8)
    c.assume("watched_lane_in_range", lambda f: ULT(zext(lane, 8), BV(nbf, 8)))
    if wt > wf:
        r = wt // wf
        lr = log2_int(r)
        A = z3.Extract(len(pf.cmd.addr) - 1, lr, UA)
        chunk = z3.Extract(lr - 1, 0, UA)
        chunk_eff = (BV(r - 1, lr) - chunk) if rev else chunk
        LT = max((nbt - 1).bit_length(), 1)
        lane_to = zext(chunk_eff, LT) * BV(nbf, LT) + zext(lane, LT)
    else:
        r = wf // wt
        lr = log2_int(r)
        LT = max((nbt - 1).bit_length(), 1)
        sub = z3.Extract(LW - 1, LW - lr, lane) if nbt > 1 else lane      # which controller word of the user word
        sub = z3.Extract(LW - 1, LW - lr, lane)
        sub_eff = (BV(r - 1, lr) - sub) if rev else sub
        A = z3.Concat(UA, sub_eff)
        lane_to = z3.Extract(LT - 1, 0, zext(lane, max(LT, LW))) if nbt > 1 else BV(0, 1)
        if nbt > 1:
            lane_to = z3.Extract(LW - lr - 1, 0, lane)
            lane_to = zext(lane_to, LT)
    env = add_memory_env(c, pt, "mem", zext(A, len(pt.cmd.addr)) if A.size() < len(pt.cmd.addr) else A, lane_to, init, Q=cfg.get("Q", 3))
    m = add_master(c, pf, "usr", UA, lane, init, h, Qw=cfg.get("Qw", 3), Qr=cfg.get("Qr", 3))
    if cfg.get("ascending_within_wide_word") and wt > wf:
        # restriction used because the unrestricted obligation is a recorded finding (up-converter pairs data with chunks
        # in chunk order): consecutive commands of the same direction to one wide word use strictly increasing chunks
        acc = m["acc"]
        c.ghost("prev_ok", "bool", False, lambda f: If_(acc(f), True, f.g.prev_ok))
        c.ghost("prev_addr", len(pf.cmd.addr), 0, lambda f: If_(acc(f), f(pf.cmd.addr), f.g.prev_addr))
        c.ghost("prev_we", 1, 0, lambda f: If_(acc(f), f(pf.cmd.we), f.g.prev_we))
        hi = lambda a: z3.Extract(len(pf.cmd.addr) - 1, lr, a)
        lo = lambda a: z3.Extract(lr - 1, 0, a)
        c.assume("chunks_ascend_within_a_wide_word", lambda f: Implies(
            And(f.b(pf.cmd.valid), f.g.prev_ok, hi(f(pf.cmd.addr)) == hi(f.g.prev_addr), f(pf.cmd.we) == f.g.prev_we),
            UGT(lo(f(pf.cmd.addr)), lo(f.g.prev_addr))))
    for nm, fn in m["read_clauses"].items():
        c.bounded(nm, fn)
    c.bounded("write_data_present_when_memory_takes_it", lambda f: Implies(f.b(pt.wdata.ready), f.b(pt.wdata.valid)))
    c.bounded("memory_side_command_within_address_space", lambda f: z3.BoolVal(True))
    hitrd = lambda f: And(f.b(pf.rdata.valid), m["rq"].nonempty(f), m["rq"].head(f, "hit") == 1)
    c.cover("a_watched_read_returns_after_a_watched_write", lambda f: And(hitrd(f), m["G"](f, "spec") != init),
            within=cfg.get("depth", 24))
    return c


class DownHarness(Module):
    def __init__(self, cfg):
        wf, wt = cfg["from"], cfg["to"]
        self.pf = LiteDRAMNativePort("both", 6, wf)
        self.pt = LiteDRAMNativePort("both", 6 + log2_int(wf // wt), wt)
        with capture_locals(LiteDRAMNativePortDownConverter.__init__) as cap:
            self.submodules.conv = LiteDRAMNativePortDownConverter(self.pf, self.pt, reverse=cfg.get("reverse", False))
        self.L = cap.of(self.conv)


def down_cmd_contract(cfg):
    """lemma (unbounded): every accepted user command produces exactly N controller commands addr*N+0 .. addr*N+N-1 in
    order with the same direction, and nothing else"""
    h = DownHarness(cfg)
    pf, pt, L = h.pf, h.pt, h.L
    r = cfg["from"] // cfg["to"]
    free = [pf.cmd.valid, pf.cmd.we, pf.cmd.addr, pf.cmd.last, pf.cmd.first, pf.wdata.valid, pf.wdata.data, pf.wdata.we,
            pf.rdata.ready, pt.cmd.ready, pt.wdata.ready, pt.rdata.valid, pt.rdata.data, pf.flush]
    c = Contract("DownConverterCommands", h, free, cfg=cfg)
    fsm = h.conv.fsm
    uacc = lambda f: And(f.b(pf.cmd.valid), f.b(pf.cmd.ready))
    tacc = lambda f: And(f.b(pt.cmd.valid), f.b(pt.cmd.ready))
    aw = len(pf.cmd.addr)
    c.ghost("ga", aw, 0, lambda f: If_(uacc(f), f(pf.cmd.addr), f.g.ga))
    c.ghost("gwe", 1, 0, lambda f: If_(uacc(f), f(pf.cmd.we), f.g.gwe))
    CW = r.bit_length() + 1
    c.ghost("gi", CW, r, lambda f: If_(uacc(f), BV(0, CW), If_(tacc(f), f.g.gi + 1, f.g.gi)))     # sub-commands issued
    c.invariant("state_tracks_progress", lambda f: And(
        state_in_range(f, fsm), ULE(f.g.gi, BV(r, CW)),
        state_is(f, fsm, "IDLE") == (f.g.gi == r),
        Implies(state_is(f, fsm, "CONVERT"), And(zext(f(L["cmd_count"]), CW) == f.g.gi, f(L["cmd_addr"]) == f.g.ga,
                                                  f(L["cmd_we"]) == f.g.gwe))))
    c.ensures("user_command_accepted_only_when_previous_fully_issued", lambda f: Implies(uacc(f), f.g.gi == r))
    c.ensures("sub_command_i_is_addr_times_n_plus_i_same_direction", lambda f: Implies(f.b(pt.cmd.valid), And(
        ULT(f.g.gi, BV(r, CW)), f(pt.cmd.we) == f.g.gwe,
        f(pt.cmd.addr) == zext(f.g.ga, len(pt.cmd.addr)) * BV(r, len(pt.cmd.addr)) + zext(f.g.gi, len(pt.cmd.addr)))))
    c.cover("a_user_command_fully_issued", lambda f: And(f.g.gi == r, f.g.ga != 0), within=r + 4)
    return c


UP_CFGS = [dict(to=16, **{"from": 8}), dict(to=32, **{"from": 8}), dict(to=16, reverse=True, **{"from": 8})]
DOWN_CFGS = [dict(to=8, **{"from": 16}), dict(to=8, **{"from": 32}), dict(to=8, reverse=True, **{"from": 16})]


def tasks(tier):
    out = []
    d_up = 14 if tier == "quick" else 20
    d_dn = 14 if tier == "quick" else 16
    small = dict(aw_to=3, Q=2, Qw=2, Qr=2)
    for cfg in UP_CFGS[:1] if tier == "quick" else UP_CFGS:
        base = dict(cfg, depth=d_up, **small)
        # unrestricted: any address order (recorded finding: chunk-order pairing) -- incremental search finds it quickly
        out.append(dict(fn="conv_contract", cfg=base, modes=["bounded", "difftest"], depth=min(d_up, 10), weight=10,
                        timeout_ms=600000, difftest_cycles=80))
        # restricted to ascending chunks inside a wide word: the remaining behaviours
        out.append(dict(fn="conv_contract", cfg=dict(base, ascending_within_wide_word=True), modes=["bounded", "cover"],
                        depth=d_up, weight=40, timeout_ms=2700000, oneshot=True))
    for cfg in DOWN_CFGS[:1] if tier == "quick" else DOWN_CFGS:
        cfg2 = dict(cfg, depth=d_dn, **small)
        out.append(dict(fn="conv_contract", cfg=cfg2, modes=["bounded", "cover", "difftest"], depth=d_dn, weight=30,
                        timeout_ms=2400000, difftest_cycles=80, oneshot=True))
    for cfg in DOWN_CFGS:
        out.append(dict(fn="down_cmd_contract", cfg=cfg, modes=["inductive", "cover", "difftest"], weight=2))
    return out
