"""C07 -- width-converted ports behave like one memory at the narrower or wider width.

Real LiteDRAMNativePortConverter (Up / Down converter with LiteX StrideConverter / FIFOs as elaborated) between
  * a MASTER obeying the property's premise (command held until accepted, write data available no later than its
    command and held, read data always accepted; any addresses, byte enables, cmd.last / flush usage) and
  * the native-port memory ENVIRONMENT (NativePortSpec: arbitrary acceptance / strobe / return timing, per-kind order,
    no overtaking on the same address).
Watched byte (symbolic user address, lane, initial content): every read response carries the byte last written in user
command order; one response per read; write data is present whenever the controller side takes it.
The end-to-end clauses are checked by BOUNDED unrolling from reset (all inputs symbolic) -- labelled bounded.
Proved lemmas (unbounded, induction with ghosts on the real elaborated converters incl. the LiteX StrideConverters inside):
  * DownConverterCommands: N sub-commands addr*N+i in order, same direction;
  * DownConverterData: narrow write beat i = slice n(i) of the user's data / enables, wide beat consumed with its N-th narrow
    beat; wide read word = the last N narrow words in lanes n(i), one wide beat per N narrow beats, controller read data
    never refused while the user accepts;
  * UpConverterWriteLanes: the wide write beat holds narrow beat i in lane n(i) and the latched chunk mask enables lane n(i)
    iff chunk i was requested (data placement in LiteX and mask replication in the adapter agree, with and without reverse);
    the write chunk register is one-hot at the converter position, a narrow beat is taken from the user queue iff its chunk
    was requested;
  * UpConverterReadLanes: the read chunk register is one-hot at the converter position, a narrow read beat is lane n(i) of
    the wide word at the head of the read-data queue and is offered only for a requested chunk, word and command entry are
    released exactly at the last position.
  * UpConverterCommands: `sel` is exactly the set of chunks of the user commands accepted into the current group, all of one
    wide word and direction; the memory-side command and the queued (sel, we) entry describe exactly that group.
Executed on the real function over the property's whole configuration grid (labelled bounded): Crossbar.get_port -- the
converted port covers the same bytes as the crossbar port, through the right converter / ratio / reverse option / mode.
Bounded (labelled bounded): UpConverterDrain -- after K quiet, responsive cycles following a flush- or cmd.last-terminated
burst nothing is left inside the up-converter (every accepted read answered, every accepted write issued with its data).
"""
import z3
from .common import *
from vc.engine import Contract
from vc.shims import capture_locals
from litedram.frontend.adapter import (LiteDRAMNativePortConverter, LiteDRAMNativePortDownConverter,
                                       LiteDRAMNativePortUpConverter)
from litedram.core.crossbar import LiteDRAMCrossbar
from .nativeport import add_memory_env, add_master

PROPERTY = "C07"
LEVEL = "other"
FUNCTIONS = ["litedram.frontend.adapter:LiteDRAMNativePortUpConverter.__init__",
             "litedram.frontend.adapter:LiteDRAMNativePortDownConverter.__init__",
             "litedram.frontend.adapter:LiteDRAMNativePortConverter.__init__",
             "litedram.core.crossbar:LiteDRAMCrossbar.get_port"]
ASSUMPTIONS = [
    "end-to-end clauses: bounded unrolling from reset to the stated depth with all master / memory-side inputs symbolic "
    "(never counted as proved); environment = NativePortSpec (guaranteed by the core, C01) with at most Q outstanding "
    "commands; master queues bounded (Qw beats / Qr reads in flight)",
    "write-data strobes of the memory side come at least one cycle after the command was accepted (true of the core: "
    "write_latency+1 >= 1)",
    "first/last markers of the native DATA streams (wdata, rdata) are 0, as in the core and all in-tree masters",
    "per configuration (ratios, reverse, modes)",
    "composition of the proved down-converter lemmas (commands, write slices, read regrouping) into the port-level statement "
    "is a paper argument (DESIGN.md); the up-converter's command merging and chunk bookkeeping are covered by bounded "
    "clauses only",
    "LiteX StrideConverter / _UpConverter / _DownConverter / SyncFIFO are verified as elaborated inside the converters (not "
    "trusted), internal signals bound by name via constructor-local capture",
    "Crossbar.get_port 'Data width conversion': executed on the real function for every ratio / mode / reverse of the "
    "property's configuration grid (enumeration of a finite domain, labelled bounded), one controller geometry",
    "UpConverterDrain: bounded; restricted to ascending chunks inside a wide word (the unrestricted case is the recorded "
    "finding); write data run-ahead of at most N beats",
]
EXPLANATION = ("bounded contract check (master premise + NativePortSpec environment + watched byte) on the real converters; "
               "unbounded lemmas for the down-converter's command splitting and both of its data paths and for the "
               "up-converter's write lane / chunk-mask agreement; bounded quiescence clause for the up-converter")


class ConvHarness(Module):
    def __init__(self, cfg):
        wf, wt = cfg["from"], cfg["to"]
        ratio_up = wt // wf if wt > wf else None
        aw_to = cfg.get("aw_to", 6)
        if wt > wf:
            aw_from = aw_to + log2_int(wt // wf)
        else:
            aw_from = aw_to - log2_int(wf // wt)
        self.pf = LiteDRAMNativePort("both", aw_from, wf)
        self.pt = LiteDRAMNativePort("both", aw_to, wt)
        self.submodules.conv = LiteDRAMNativePortConverter(self.pf, self.pt, reverse=cfg.get("reverse", False))
        self.m_byte = Signal(8)
        self.m_en = Signal()
        self._s = Signal(9)
        self.comb += self._s.eq(Cat(self.m_byte, self.m_en))


def conv_contract(cfg):
    h = ConvHarness(cfg)
    pf, pt = h.pf, h.pt
    wf, wt = cfg["from"], cfg["to"]
    rev = cfg.get("reverse", False)
    # first/last of the DATA streams are never driven by the core or by native masters: left at their reset value 0
    free = [pf.cmd.valid, pf.cmd.we, pf.cmd.addr, pf.cmd.last, pf.cmd.first, pf.wdata.data, pf.wdata.we, pf.wdata.valid,
            pf.rdata.ready, pf.flush,
            pt.cmd.ready, pt.wdata.ready, pt.rdata.valid, pt.rdata.data, h.m_byte, h.m_en]
    c = Contract("NativePortConverter", h, free, cfg=cfg)
    nbf, nbt = wf // 8, wt // 8
    UA = c.rigid("UA", len(pf.cmd.addr))
    LW = max((nbf - 1).bit_length(), 1)
    lane = c.rigid("lane", LW)
    init = c.rigid("init", 8)
    c.assume("watched_lane_in_range", lambda f: ULT(zext(lane, 8), BV(nbf, 8)))
    if wt > wf:
        r = wt // wf
        lr = log2_int(r)
        A = z3.Extract(len(pf.cmd.addr) - 1, lr, UA)
        chunk = z3.Extract(lr - 1, 0, UA)
        chunk_eff = (BV(r - 1, lr) - chunk) if rev else chunk
        LT = max((nbt - 1).bit_length(), 1)
        lane_to = zext(chunk_eff, LT) * BV(nbf, LT) + zext(lane, LT)
    else:
        r = wf // wt
        lr = log2_int(r)
        LT = max((nbt - 1).bit_length(), 1)
        sub = z3.Extract(LW - 1, LW - lr, lane) if nbt > 1 else lane      # which controller word of the user word
        sub = z3.Extract(LW - 1, LW - lr, lane)
        sub_eff = (BV(r - 1, lr) - sub) if rev else sub
        A = z3.Concat(UA, sub_eff)
        lane_to = z3.Extract(LT - 1, 0, zext(lane, max(LT, LW))) if nbt > 1 else BV(0, 1)
        if nbt > 1:
            lane_to = z3.Extract(LW - lr - 1, 0, lane)
            lane_to = zext(lane_to, LT)
    env = add_memory_env(c, pt, "mem", zext(A, len(pt.cmd.addr)) if A.size() < len(pt.cmd.addr) else A, lane_to, init, Q=cfg.get("Q", 3))
    m = add_master(c, pf, "usr", UA, lane, init, h, Qw=cfg.get("Qw", 3), Qr=cfg.get("Qr", 3))
    if cfg.get("ascending_within_wide_word") and wt > wf:
        # restriction used because the unrestricted obligation is a recorded finding (up-converter pairs data with chunks
        # in chunk order): consecutive commands of the same direction to one wide word use strictly increasing chunks
        acc = m["acc"]
        c.ghost("prev_ok", "bool", False, lambda f: If_(acc(f), True, f.g.prev_ok))
        c.ghost("prev_addr", len(pf.cmd.addr), 0, lambda f: If_(acc(f), f(pf.cmd.addr), f.g.prev_addr))
        c.ghost("prev_we", 1, 0, lambda f: If_(acc(f), f(pf.cmd.we), f.g.prev_we))
        hi = lambda a: z3.Extract(len(pf.cmd.addr) - 1, lr, a)
        lo = lambda a: z3.Extract(lr - 1, 0, a)
        c.assume("chunks_ascend_within_a_wide_word", lambda f: Implies(
            And(f.b(pf.cmd.valid), f.g.prev_ok, hi(f(pf.cmd.addr)) == hi(f.g.prev_addr), f(pf.cmd.we) == f.g.prev_we),
            UGT(lo(f(pf.cmd.addr)), lo(f.g.prev_addr))))
    for nm, fn in m["read_clauses"].items():
        c.bounded(nm, fn)
    c.bounded("write_data_present_when_memory_takes_it", lambda f: Implies(f.b(pt.wdata.ready), f.b(pt.wdata.valid)))
    hitrd = lambda f: And(f.b(pf.rdata.valid), m["rq"].nonempty(f), m["rq"].head(f, "hit") == 1)
    c.cover("a_watched_read_returns_after_a_watched_write", lambda f: And(hitrd(f), m["G"](f, "spec") != init),
            within=cfg.get("depth", 24))
    return c


class DownHarness(Module):
    def __init__(self, cfg):
        wf, wt = cfg["from"], cfg["to"]
        self.pf = LiteDRAMNativePort("both", 6, wf)
        self.pt = LiteDRAMNativePort("both", 6 + log2_int(wf // wt), wt)
        with capture_locals(LiteDRAMNativePortDownConverter.__init__) as cap:
            self.submodules.conv = LiteDRAMNativePortDownConverter(self.pf, self.pt, reverse=cfg.get("reverse", False))
        self.L = cap.of(self.conv)


def down_cmd_contract(cfg):
    """lemma (unbounded): every accepted user command produces exactly N controller commands addr*N+0 .. addr*N+N-1 in
    order with the same direction, and nothing else"""
    h = DownHarness(cfg)
    pf, pt, L = h.pf, h.pt, h.L
    r = cfg["from"] // cfg["to"]
    free = [pf.cmd.valid, pf.cmd.we, pf.cmd.addr, pf.cmd.last, pf.cmd.first, pf.wdata.valid, pf.wdata.data, pf.wdata.we,
            pf.rdata.ready, pt.cmd.ready, pt.wdata.ready, pt.rdata.valid, pt.rdata.data, pf.flush]
    c = Contract("DownConverterCommands", h, free, cfg=cfg)
    fsm = h.conv.fsm
    uacc = lambda f: And(f.b(pf.cmd.valid), f.b(pf.cmd.ready))
    tacc = lambda f: And(f.b(pt.cmd.valid), f.b(pt.cmd.ready))
    aw = len(pf.cmd.addr)
    c.ghost("ga", aw, 0, lambda f: If_(uacc(f), f(pf.cmd.addr), f.g.ga))
    c.ghost("gwe", 1, 0, lambda f: If_(uacc(f), f(pf.cmd.we), f.g.gwe))
    CW = r.bit_length() + 1
    c.ghost("gi", CW, r, lambda f: If_(uacc(f), BV(0, CW), If_(tacc(f), f.g.gi + 1, f.g.gi)))     # sub-commands issued
    c.invariant("state_tracks_progress", lambda f: And(
        state_in_range(f, fsm), ULE(f.g.gi, BV(r, CW)),
        state_is(f, fsm, "IDLE") == (f.g.gi == r),
        Implies(state_is(f, fsm, "CONVERT"), And(zext(f(L["cmd_count"]), CW) == f.g.gi, f(L["cmd_addr"]) == f.g.ga,
                                                  f(L["cmd_we"]) == f.g.gwe))))
    c.ensures("user_command_accepted_only_when_previous_fully_issued", lambda f: Implies(uacc(f), f.g.gi == r))
    c.ensures("sub_command_i_is_addr_times_n_plus_i_same_direction", lambda f: Implies(f.b(pt.cmd.valid), And(
        ULT(f.g.gi, BV(r, CW)), f(pt.cmd.we) == f.g.gwe,
        f(pt.cmd.addr) == zext(f.g.ga, len(pt.cmd.addr)) * BV(r, len(pt.cmd.addr)) + zext(f.g.gi, len(pt.cmd.addr)))))
    c.cover("a_user_command_fully_issued", lambda f: And(f.g.gi == r, f.g.ga != 0), within=r + 4)
    return c


class DownDataHarness(Module):
    def __init__(self, cfg):
        from litex.soc.interconnect import stream as _stream
        wf, wt = cfg["from"], cfg["to"]
        self.pf = LiteDRAMNativePort("both", 6, wf)
        self.pt = LiteDRAMNativePort("both", 6 + log2_int(wf // wt), wt)
        with capture_locals(LiteDRAMNativePortDownConverter.__init__, _stream._DownConverter.__init__,
                            _stream._UpConverter.__init__) as cap:
            self.submodules.conv = LiteDRAMNativePortDownConverter(self.pf, self.pt, reverse=cfg.get("reverse", False))
        self.L = cap.of(self.conv)
        dn, up = cap.calls["_DownConverter.__init__"], cap.calls["_UpConverter.__init__"]
        assert len(dn) == 1 and len(up) == 1, "one narrowing (wdata) and one widening (rdata) LiteX converter expected"
        self.Lw, self.Lr = dn[0], up[0]


def down_data_contract(cfg):
    """lemmas (unbounded) on the down-converter's data paths (real StrideConverter / _DownConverter / _UpConverter of LiteX
    as elaborated inside the real LiteDRAMNativePortDownConverter):
      write: the i-th narrow beat handed to the controller out of a wide beat is slice n(i) of the user's data and byte
             enables (n(i)=i, or N-1-i with reverse), the wide beat is consumed exactly with its N-th narrow beat;
      read : the wide word handed to the user is the last N narrow words taken from the controller, word i in slice n(i);
             one wide beat per N narrow beats; controller read data is never refused while the user accepts data."""
    h = DownDataHarness(cfg)
    pf, pt = h.pf, h.pt
    r = cfg["from"] // cfg["to"]
    rev = cfg.get("reverse", False)
    wt, nbt = cfg["to"], cfg["to"] // 8
    n = lambda i: (r - 1 - i) if rev else i
    free = [pf.cmd.valid, pf.cmd.we, pf.cmd.addr, pf.cmd.last, pf.cmd.first, pf.wdata.valid, pf.wdata.data, pf.wdata.we,
            pf.rdata.ready, pt.cmd.ready, pt.wdata.ready, pt.rdata.valid, pt.rdata.data, pf.flush]
    c = Contract("DownConverterData", h, free, cfg=cfg)
    CW = r.bit_length() + 1
    mux, demux, strobe_all = h.Lw["mux"], h.Lr["demux"], h.Lr["strobe_all"]
    wacc = lambda f: And(f.b(pt.wdata.valid), f.b(pt.wdata.ready))
    racc = lambda f: And(f.b(pt.rdata.valid), f.b(pt.rdata.ready))
    uracc = lambda f: And(f.b(pf.rdata.valid), f.b(pf.rdata.ready))
    # -- write path
    c.ghost("gw", CW, 0, lambda f: If_(wacc(f), If_(f.g.gw == r - 1, BV(0, CW), f.g.gw + 1), f.g.gw))
    c.invariant("write_position_tracks_mux", lambda f: And(ULT(f.g.gw, BV(r, CW)), zext(f(mux), CW) == f.g.gw))

    def wslice(f):
        d, e = f(pf.wdata.data), f(pf.wdata.we)
        outd, oute = z3.Extract(wt - 1, 0, d), z3.Extract(nbt - 1, 0, e)
        for i in range(r):
            k = n(i)
            outd = If_(f.g.gw == i, z3.Extract((k + 1) * wt - 1, k * wt, d), outd)
            oute = If_(f.g.gw == i, z3.Extract((k + 1) * nbt - 1, k * nbt, e), oute)
        return outd, oute
    c.ensures("narrow_write_beat_i_is_slice_i_of_the_wide_beat", lambda f: And(
        f.b(pt.wdata.valid) == f.b(pf.wdata.valid),
        Implies(f.b(pt.wdata.valid), And(f(pt.wdata.data) == wslice(f)[0], f(pt.wdata.we) == wslice(f)[1]))))
    c.ensures("wide_write_beat_consumed_exactly_with_its_last_narrow_beat", lambda f:
              f.b(pf.wdata.ready) == And(f.b(pt.wdata.ready), f.g.gw == r - 1))
    # -- read path
    c.ghost("gr", CW, 0, lambda f: If_(racc(f), If_(f.g.gr == r - 1, BV(0, CW), f.g.gr + 1), f.g.gr))
    c.ghost("gfull", "bool", False, lambda f: If_(And(racc(f), f.g.gr == r - 1), True, If_(uracc(f), False, f.g.gfull)))
    for i in range(r):
        c.ghost("gd%d" % i, wt, 0, (lambda i: lambda f: If_(And(racc(f), f.g.gr == i), f(pt.rdata.data), f.g["gd%d" % i]))(i))
    sl = lambda f, i: z3.Extract((n(i) + 1) * wt - 1, n(i) * wt, f(pf.rdata.data))
    c.invariant("read_group_tracks_demux_and_collected_words", lambda f: And(
        ULT(f.g.gr, BV(r, CW)), zext(f(demux), CW) == f.g.gr, f.b(strobe_all) == f.g.gfull,
        *[Implies(Or(f.g.gfull, ULT(BV(i, CW), f.g.gr)), sl(f, i) == f.g["gd%d" % i]) for i in range(r)]))
    c.ensures("wide_read_word_is_the_last_n_narrow_words_in_order", lambda f: And(
        f.b(pf.rdata.valid) == f.g.gfull,
        Implies(f.b(pf.rdata.valid), And(*[sl(f, i) == f.g["gd%d" % i] for i in range(r)]))))
    c.ensures("controller_read_data_never_refused_while_user_accepts", lambda f: And(
        f.b(pt.rdata.ready) == Or(Not(f.g.gfull), f.b(pf.rdata.ready)),
        Implies(f.b(pf.rdata.ready), f.b(pt.rdata.ready))))
    c.cover("a_wide_read_word_delivered_with_distinct_parts", lambda f: And(uracc(f), f.g.gd0 != f.g["gd%d" % (r - 1)], f.g.gd0 != 0),
            within=r + 4)
    c.cover("a_wide_write_beat_consumed", lambda f: And(f.b(pf.wdata.valid), f.b(pf.wdata.ready), f(pf.wdata.we) != 0), within=r + 3)
    return c


class UpHarness(Module):
    def __init__(self, cfg):
        wf, wt = cfg["from"], cfg["to"]
        aw_to = cfg.get("aw_to", 3)
        self.pf = LiteDRAMNativePort("both", aw_to + log2_int(wt // wf), wf)
        self.pt = LiteDRAMNativePort("both", aw_to, wt)
        with capture_locals(LiteDRAMNativePortUpConverter.__init__) as cap:
            self.submodules.conv = LiteDRAMNativePortUpConverter(self.pf, self.pt, reverse=cfg.get("reverse", False))
        self.L = cap.of(self.conv)


def up_drain_contract(cfg):
    """bounded (labelled bounded): nothing stays stuck inside the up-converter.  Whenever the master has been quiet (no
    command on offer) for K consecutive cycles in which the burst was ended (flush asserted, or the last accepted command
    carried cmd.last) and the memory side was responsive (command and write data taken at once, every outstanding read
    answered), every accepted read has been answered, every accepted write has been issued to the memory side and the data
    of every issued memory-side write has been handed over."""
    h = UpHarness(cfg)
    pf, pt = h.pf, h.pt
    r = cfg["to"] // cfg["from"]
    K = cfg.get("K", 3 * r + 8)
    free = [pf.cmd.valid, pf.cmd.we, pf.cmd.addr, pf.cmd.last, pf.cmd.first, pf.wdata.data, pf.wdata.we, pf.wdata.valid,
            pf.rdata.ready, pf.flush, pt.cmd.ready, pt.wdata.ready, pt.rdata.valid, pt.rdata.data]
    c = Contract("UpConverterDrain", h, free, cfg=cfg)
    CW = 6
    uacc = lambda f: And(f.b(pf.cmd.valid), f.b(pf.cmd.ready))
    tacc = lambda f: And(f.b(pt.cmd.valid), f.b(pt.cmd.ready))
    uwd = lambda f: And(f.b(pf.wdata.valid), f.b(pf.wdata.ready))
    twd = lambda f: And(f.b(pt.wdata.valid), f.b(pt.wdata.ready))
    trd = lambda f: And(f.b(pt.rdata.valid), f.b(pt.rdata.ready))
    urd = lambda f: And(f.b(pf.rdata.valid), f.b(pf.rdata.ready))
    one = lambda b: If_(b, BV(1, CW), BV(0, CW))
    # master premise
    c.ghost("pv", "bool", False, lambda f: And(f.b(pf.cmd.valid), Not(f.b(pf.cmd.ready))))
    c.ghost("pwe", 1, 0, lambda f: f(pf.cmd.we))
    c.ghost("pa", len(pf.cmd.addr), 0, lambda f: f(pf.cmd.addr))
    c.ghost("pl", 1, 0, lambda f: f(pf.cmd.last))
    c.assume("command_held_until_accepted", lambda f: Implies(f.g.pv, And(
        f.b(pf.cmd.valid), f(pf.cmd.we) == f.g.pwe, f(pf.cmd.addr) == f.g.pa, f(pf.cmd.last) == f.g.pl)))
    c.assume("read_data_always_accepted", lambda f: f.b(pf.rdata.ready))
    c.ghost("owed", CW, 0, lambda f: f.g.owed + one(And(uacc(f), f.b(pf.cmd.we))) - one(uwd(f)))    # write cmds - data beats (signed)
    c.assume("write_data_offered_no_later_than_its_command", lambda f: And(
        Implies(And(f.b(pf.cmd.valid), f.b(pf.cmd.we), f.g.owed >= 0), f.b(pf.wdata.valid)),
        Implies(f.g.owed > 0, f.b(pf.wdata.valid)),
        f.g.owed >= BV(-r, CW)))                                                                      # bounded run-ahead
    # restriction, as in the end-to-end clauses: the unrestricted up-converter is a recorded finding (repeated or
    # descending chunks inside one wide word are paired / counted wrongly); consecutive commands of one direction into one
    # wide word use strictly increasing chunks
    lr = log2_int(r)
    c.ghost("prev_ok", "bool", False, lambda f: If_(uacc(f), True, f.g.prev_ok))
    c.ghost("prev_addr", len(pf.cmd.addr), 0, lambda f: If_(uacc(f), f(pf.cmd.addr), f.g.prev_addr))
    c.ghost("prev_we", 1, 0, lambda f: If_(uacc(f), f(pf.cmd.we), f.g.prev_we))
    hi = lambda a: z3.Extract(len(pf.cmd.addr) - 1, lr, a)
    lo = lambda a: z3.Extract(lr - 1, 0, a)
    c.assume("chunks_ascend_within_a_wide_word", lambda f: Implies(
        And(f.b(pf.cmd.valid), f.g.prev_ok, hi(f(pf.cmd.addr)) == hi(f.g.prev_addr), f(pf.cmd.we) == f.g.prev_we),
        UGT(lo(f(pf.cmd.addr)), lo(f.g.prev_addr))))
    # memory side: answers only outstanding reads
    c.ghost("out", CW, 0, lambda f: f.g.out + one(And(tacc(f), Not(f.b(pt.cmd.we)))) - one(trd(f)))
    c.assume("memory_answers_only_outstanding_reads", lambda f: Implies(f.b(pt.rdata.valid), f.g.out != 0))
    # bookkeeping
    c.ghost("reads", CW, 0, lambda f: f.g.reads + one(And(uacc(f), Not(f.b(pf.cmd.we)))) - one(urd(f)))
    c.ghost("wpend", "bool", False, lambda f: If_(And(uacc(f), f.b(pf.cmd.we)), True,
                                                  If_(And(tacc(f), f.b(pt.cmd.we)), False, f.g.wpend)))
    c.ghost("twowed", CW, 0, lambda f: f.g.twowed + one(And(tacc(f), f.b(pt.cmd.we))) - one(twd(f)))
    c.ghost("ended", "bool", False, lambda f: If_(uacc(f), f.b(pf.cmd.last), f.g.ended))
    responsive = lambda f: And(f.b(pt.cmd.ready), f.b(pt.wdata.ready), f.b(pt.rdata.valid) == (f.g.out != 0))
    quiet = lambda f: And(Not(f.b(pf.cmd.valid)), Or(f.b(pf.flush), f.g.ended), responsive(f))
    c.ghost("q", CW, 0, lambda f: If_(quiet(f), If_(f.g.q == K, f.g.q, f.g.q + 1), BV(0, CW)))
    c.bounded("every_accepted_read_answered_once_the_burst_is_ended_and_the_port_quiet",
              lambda f: Implies(f.g.q == K, f.g.reads == 0))
    c.bounded("every_accepted_write_issued_and_its_data_delivered_once_the_port_is_quiet",
              lambda f: Implies(f.g.q == K, And(Not(f.g.wpend), f.g.twowed == 0)))
    c.bounded("never_more_read_beats_than_read_commands", lambda f: f.g.reads >= 0)
    c.cover("quiet_after_a_flush_terminated_partial_read", lambda f: And(f.g.q == K, Not(f.g.ended)), within=K + 6)
    return c


class UpDataHarness(Module):
    def __init__(self, cfg):
        from litex.soc.interconnect import stream as _stream
        wf, wt = cfg["from"], cfg["to"]
        aw_to = cfg.get("aw_to", 3)
        self.pf = LiteDRAMNativePort("both", aw_to + log2_int(wt // wf), wf)
        self.pt = LiteDRAMNativePort("both", aw_to, wt)
        with capture_locals(LiteDRAMNativePortUpConverter.__init__, _stream._UpConverter.__init__) as cap:
            self.submodules.conv = LiteDRAMNativePortUpConverter(self.pf, self.pt, reverse=cfg.get("reverse", False))
        self.L = cap.of(self.conv)
        up = cap.calls["_UpConverter.__init__"]
        assert len(up) == 1, "one widening (wdata) LiteX converter expected"
        self.Lw = up[0]


def up_write_lanes_contract(cfg):
    """lemmas (unbounded) on the up-converter's write data path: the wide beat handed on by the write StrideConverter holds
    the data and byte enables of the i-th narrow beat of the group in lane n(i) (n(i)=i, or N-1-i with reverse), and the
    chunk-select mask latched for that wide beat enables lane n(i) exactly when chunk i was requested (sel[i]) -- the two
    sites (data placement in LiteX, mask replication in the adapter) must agree on the lane order."""
    h = UpDataHarness(cfg)
    pf, pt, L = h.pf, h.pt, h.L
    r = cfg["to"] // cfg["from"]
    rev = cfg.get("reverse", False)
    wf, nbf = cfg["from"], cfg["from"] // 8
    n = lambda i: (r - 1 - i) if rev else i
    free = [pf.cmd.valid, pf.cmd.we, pf.cmd.addr, pf.cmd.last, pf.cmd.first, pf.wdata.data, pf.wdata.we, pf.wdata.valid,
            pf.rdata.ready, pf.flush, pt.cmd.ready, pt.wdata.ready, pt.rdata.valid, pt.rdata.data]
    c = Contract("UpConverterWriteLanes", h, free, cfg=cfg)
    CW = r.bit_length() + 1
    wc, cb = L["wdata_converter"], L["cmd_buffer"]
    wdata_sel, wdata_chunk, wbuf = L["wdata_sel"], L["wdata_chunk"], L["wdata_buffer"]
    demux, strobe_all = h.Lw["demux"], h.Lw["strobe_all"]
    sacc = lambda f: And(f.b(wc.sink.valid), f.b(wc.sink.ready))
    oacc = lambda f: And(f.b(wc.source.valid), f.b(wc.source.ready))
    c.ghost("gi", CW, 0, lambda f: If_(sacc(f), If_(f.g.gi == r - 1, BV(0, CW), f.g.gi + 1), f.g.gi))
    c.ghost("gfull", "bool", False, lambda f: If_(And(sacc(f), f.g.gi == r - 1), True, If_(oacc(f), False, f.g.gfull)))
    for i in range(r):
        c.ghost("gd%d" % i, wf, 0, (lambda i: lambda f: If_(And(sacc(f), f.g.gi == i), f(wc.sink.data), f.g["gd%d" % i]))(i))
        c.ghost("ge%d" % i, nbf, 0, (lambda i: lambda f: If_(And(sacc(f), f.g.gi == i), f(wc.sink.we), f.g["ge%d" % i]))(i))
    sld = lambda f, i: z3.Extract((n(i) + 1) * wf - 1, n(i) * wf, f(wc.source.data))
    sle = lambda f, i: z3.Extract((n(i) + 1) * nbf - 1, n(i) * nbf, f(wc.source.we))
    c.invariant("write_group_tracks_demux_and_collected_beats", lambda f: And(
        ULT(f.g.gi, BV(r, CW)), zext(f(demux), CW) == f.g.gi, f.b(strobe_all) == f.g.gfull,
        *[Implies(Or(f.g.gfull, ULT(BV(i, CW), f.g.gi)), And(sld(f, i) == f.g["gd%d" % i], sle(f, i) == f.g["ge%d" % i]))
          for i in range(r)]))
    c.ensures("wide_write_beat_holds_narrow_beat_i_in_lane_n_i", lambda f: And(
        f.b(wc.source.valid) == f.g.gfull,
        Implies(f.b(wc.source.valid), And(*[And(sld(f, i) == f.g["gd%d" % i], sle(f, i) == f.g["ge%d" % i])
                                            for i in range(r)]))))
    wfifo = L["wdata_fifo"]
    onehot = lambda pos: (BV(1, r) << zext(pos, r)) if r > pos.size() else z3.Extract(r - 1, 0, BV(1, pos.size()) << pos)
    c.invariant("write_chunk_register_is_one_hot_at_the_converter_position", lambda f: f(wdata_chunk) == onehot(f(demux)))
    wr_active = lambda f: And(f.b(cb.source.valid), f.b(cb.source.we))
    cur_sel = lambda f: (f(cb.source.sel) & onehot(f(demux))) != 0
    c.ensures("narrow_write_beat_i_taken_from_the_user_queue_iff_chunk_i_requested", lambda f: And(
        f.b(wfifo.source.ready) == And(wr_active(f), cur_sel(f), f.b(wc.sink.ready)),
        Implies(And(wr_active(f), cur_sel(f)), And(f.b(wc.sink.valid) == f.b(wfifo.source.valid),
                                                    f(wc.sink.data) == f(wfifo.source.data), f(wc.sink.we) == f(wfifo.source.we))),
        Implies(And(wr_active(f), Not(cur_sel(f))), f.b(wc.sink.valid)),
        Implies(Not(wr_active(f)), Not(f.b(wc.sink.valid))),
        f.b(L["wdata_finished"]) == And(sacc(f), f(demux) == r - 1)))
    load = lambda f: And(f.b(cb.source.valid), f.b(cb.source.we), z3.Extract(r - 1, r - 1, f(wdata_chunk)) == 1)
    selbit = lambda f, i: z3.Extract(i, i, f(cb.source.sel))
    nsel = lambda f, i: z3.Extract((n(i) + 1) * nbf - 1, n(i) * nbf, f.nx(wdata_sel))
    c.ensures("latched_chunk_mask_enables_lane_n_i_iff_chunk_i_requested", lambda f: Implies(load(f), And(*[
        nsel(f, i) == If_(selbit(f, i) == 1, BV(2 ** nbf - 1, nbf), BV(0, nbf)) for i in range(r)])))
    c.ensures("byte_enables_handed_to_the_buffer_are_the_converted_enables_under_the_latched_mask", lambda f: And(
        f(wbuf.sink.we) == (f(wc.source.we) & f(wdata_sel)), f(wbuf.sink.data) == f(wc.source.data),
        f.b(wbuf.sink.valid) == f.b(wc.source.valid)))
    c.cover("a_partial_mask_latched", lambda f: And(load(f), f(cb.source.sel) == 1), within=r + 10)
    return c


class UpReadHarness(Module):
    def __init__(self, cfg):
        from litex.soc.interconnect import stream as _stream
        wf, wt = cfg["from"], cfg["to"]
        aw_to = cfg.get("aw_to", 3)
        self.pf = LiteDRAMNativePort("both", aw_to + log2_int(wt // wf), wf)
        self.pt = LiteDRAMNativePort("both", aw_to, wt)
        with capture_locals(LiteDRAMNativePortUpConverter.__init__, _stream._DownConverter.__init__) as cap:
            self.submodules.conv = LiteDRAMNativePortUpConverter(self.pf, self.pt, reverse=cfg.get("reverse", False))
        self.L = cap.of(self.conv)
        dn = cap.calls["_DownConverter.__init__"]
        assert len(dn) == 1, "one narrowing (rdata) LiteX converter expected"
        self.Lr = dn[0]


def up_read_lanes_contract(cfg):
    """lemmas (unbounded) on the up-converter's read data path: the chunk register stays one-hot at the position of the
    read StrideConverter, a narrow read beat offered to the user is lane n(i) of the wide word at the head of the read-data
    queue for the current position i and is offered only if chunk i was requested by the command at the head of the
    command queue (not-requested chunks are skipped), the wide word and its command entry are released exactly with the
    last position."""
    h = UpReadHarness(cfg)
    pf, pt, L = h.pf, h.pt, h.L
    r = cfg["to"] // cfg["from"]
    rev = cfg.get("reverse", False)
    wf = cfg["from"]
    n = lambda i: (r - 1 - i) if rev else i
    free = [pf.cmd.valid, pf.cmd.we, pf.cmd.addr, pf.cmd.last, pf.cmd.first, pf.wdata.data, pf.wdata.we, pf.wdata.valid,
            pf.rdata.ready, pf.flush, pt.cmd.ready, pt.wdata.ready, pt.rdata.valid, pt.rdata.data]
    c = Contract("UpConverterReadLanes", h, free, cfg=cfg)
    rc, cb, rfifo, rchunk = L["rdata_converter"], L["cmd_buffer"], L["rdata_fifo"], L["rdata_chunk"]
    mux = h.Lr["mux"]
    onehot = lambda pos: (BV(1, r) << zext(pos, r)) if r > pos.size() else z3.Extract(r - 1, 0, BV(1, pos.size()) << pos)
    c.invariant("read_chunk_register_is_one_hot_at_the_converter_position", lambda f: And(
        ULT(zext(f(mux), 8), BV(r, 8)), f(rchunk) == onehot(f(mux))))
    rd_active = lambda f: And(f.b(cb.source.valid), Not(f.b(cb.source.we)))
    cur_sel = lambda f: (f(cb.source.sel) & onehot(f(mux))) != 0
    step = lambda f: And(f.b(rc.source.valid), f.b(rc.source.ready))

    def lane(f):
        d = f(rfifo.source.data)
        out = z3.Extract(wf - 1, 0, d)
        for i in range(r):
            out = If_(zext(f(mux), 8) == i, z3.Extract((n(i) + 1) * wf - 1, n(i) * wf, d), out)
        return out
    c.ensures("narrow_read_beat_is_lane_n_i_of_the_wide_word_and_only_for_a_requested_chunk", lambda f: And(
        f.b(pf.rdata.valid) == And(rd_active(f), cur_sel(f), f.b(rfifo.source.valid)),
        Implies(f.b(pf.rdata.valid), f(pf.rdata.data) == lane(f))))
    c.ensures("position_advances_on_delivery_or_skip_only_and_releases_word_and_command_at_the_last_position", lambda f: And(
        step(f) == And(rd_active(f), f.b(rfifo.source.valid), Or(Not(cur_sel(f)), f.b(pf.rdata.ready))),
        f.b(L["rdata_finished"]) == And(step(f), f(mux) == r - 1),
        And(f.b(rfifo.source.valid), f.b(rfifo.source.ready)) == And(step(f), f(mux) == r - 1),
        f.b(cb.source.ready) == Or(f.b(L["rdata_finished"]), f.b(L["wdata_finished"]))))
    c.ensures("controller_read_data_goes_into_the_queue_unchanged", lambda f: And(
        f.b(rfifo.sink.valid) == f.b(pt.rdata.valid), f(rfifo.sink.data) == f(pt.rdata.data),
        f.b(pt.rdata.ready) == f.b(rfifo.sink.ready)))
    c.cover("a_requested_chunk_delivered_at_the_last_position", lambda f: And(f.b(pf.rdata.valid), f(mux) == r - 1), within=r + 12)
    return c


def up_cmd_contract(cfg):
    """lemmas (unbounded) on the up-converter's command grouping: the chunk set `sel` is exactly the set of chunks of the
    user commands accepted into the current group, all of them address the same wide word in the same direction, the
    memory-side command goes to that wide word with that direction, and the (sel, we) entry queued for the data paths
    describes exactly the group."""
    h = UpHarness(cfg)
    pf, pt, L = h.pf, h.pt, h.L
    r = cfg["to"] // cfg["from"]
    lr = log2_int(r)
    free = [pf.cmd.valid, pf.cmd.we, pf.cmd.addr, pf.cmd.last, pf.cmd.first, pf.wdata.data, pf.wdata.we, pf.wdata.valid,
            pf.rdata.ready, pf.flush, pt.cmd.ready, pt.wdata.ready, pt.rdata.valid, pt.rdata.data]
    c = Contract("UpConverterCommands", h, free, cfg=cfg)
    fsm = h.conv.fsm
    sel, cmd_addr, cmd_we, cb = L["sel"], L["cmd_addr"], L["cmd_we"], L["cmd_buffer"]
    st = lambda f, *n: state_is(f, fsm, *n)
    uacc = lambda f: And(f.b(pf.cmd.valid), f.b(pf.cmd.ready))
    aw = len(pf.cmd.addr)
    hi = lambda a: z3.Extract(aw - 1, lr, a)
    onehot = lambda f: BV(1, r) << zext(z3.Extract(lr - 1, 0, f(pf.cmd.addr)), r)
    c.ghost("gsel", r, 0, lambda f: If_(uacc(f), If_(st(f, "NEW"), onehot(f), f.g.gsel | onehot(f)), f.g.gsel))
    c.ghost("gwide", aw - lr, 0, lambda f: If_(And(uacc(f), st(f, "NEW")), hi(f(pf.cmd.addr)), f.g.gwide))
    c.ghost("gwe", 1, 0, lambda f: If_(And(uacc(f), st(f, "NEW")), f(pf.cmd.we), f.g.gwe))
    c.invariant("group_registers_record_the_accepted_commands", lambda f: And(
        state_in_range(f, fsm),
        Implies(Not(st(f, "NEW")), And(f(sel) == f.g.gsel, f.g.gsel != 0, hi(f(cmd_addr)) == f.g.gwide, f(cmd_we) == f.g.gwe))))
    c.ensures("commands_are_accepted_only_to_open_or_extend_a_group_of_one_wide_word_and_direction", lambda f: Implies(uacc(f), And(
        st(f, "NEW", "FILL"),
        Implies(st(f, "FILL"), And(hi(f(pf.cmd.addr)) == f.g.gwide, f(pf.cmd.we) == f.g.gwe, f.g.gsel != 2 ** r - 1)))))
    c.ensures("memory_side_command_is_the_group_s_wide_word_and_direction", lambda f: Implies(f.b(pt.cmd.valid), And(
        st(f, "CMD"), f(pt.cmd.addr) == zext(f.g.gwide, len(pt.cmd.addr)) if len(pt.cmd.addr) >= aw - lr
        else f(pt.cmd.addr) == z3.Extract(len(pt.cmd.addr) - 1, 0, f.g.gwide), f(pt.cmd.we) == f.g.gwe)))
    c.ensures("queued_entry_describes_exactly_the_group", lambda f: Implies(f.b(cb.sink.valid), And(
        st(f, "COMMIT"), f(cb.sink.sel) == f.g.gsel, f(cb.sink.we) == f.g.gwe)))
    c.cover("a_two_chunk_group_is_committed", lambda f: And(f.b(cb.sink.valid), f.g.gsel == 3), within=8)
    return c


# ---- creation of a converted port: LiteDRAMCrossbar.get_port 'Data width conversion' ---------------------------------------

GET_PORT_GRID = [(mode, up, k, rev) for mode in ("both", "read", "write") for up, ks in ((True, (1, 2, 3, 4, 5)), (False, (1, 2, 3)))
                 for k in ks for rev in (False, True)]          # ratios 1:2..1:32 up, 2:1..8:1 down


def _get_port_case(mode, up, k, rev):
    """calls the real get_port on a real crossbar (controller data width 256 bits); returns a list of failed clauses"""
    from litedram.common import LiteDRAMInterface
    from litedram.core.crossbar import LiteDRAMCrossbar
    s = mk_settings(bankbits=2, rowbits=12, colbits=10, nphases=4, dfi_databits=64, databits=32)
    itf = LiteDRAMInterface(3, s)
    with capture_locals(LiteDRAMNativePortConverter.__init__, LiteDRAMNativePortUpConverter.__init__,
                        LiteDRAMNativePortDownConverter.__init__) as cap:
        xbar = LiteDRAMCrossbar(itf)
        cdw = xbar.controller.data_width
        dw = cdw >> k if up else cdw << k
        port = xbar.get_port(mode=mode, data_width=dw, reverse=rev)
    inner = xbar.masters[-1]
    bad = []
    byte_bits = lambda p_: p_.address_width + log2_int(p_.data_width // 8)
    if port.data_width != dw:
        bad.append("user port has the requested data width")
    if byte_bits(port) != byte_bits(inner):
        bad.append("user port covers exactly the byte address space of the controller port (address_width %d at %d bits vs %d at %d bits)"
                   % (port.address_width, port.data_width, inner.address_width, inner.data_width))
    if port.mode != mode or inner.mode != mode:
        bad.append("mode preserved")
    if inner.data_width != cdw:
        bad.append("crossbar-side port has the controller width")
    top = cap.calls.get("LiteDRAMNativePortConverter.__init__", [])
    if len(top) != 1 or top[0]["port_from"] is not port or top[0]["port_to"] is not inner or bool(top[0]["reverse"]) != rev:
        bad.append("one converter from the user port to the crossbar port with the requested reverse option")
    leaf = cap.calls.get("LiteDRAMNativePortUpConverter.__init__" if up else "LiteDRAMNativePortDownConverter.__init__", [])
    other = cap.calls.get("LiteDRAMNativePortDownConverter.__init__" if up else "LiteDRAMNativePortUpConverter.__init__", [])
    if len(leaf) != 1 or other or leaf[0]["port_from"] is not port or leaf[0]["port_to"] is not inner \
            or bool(leaf[0]["reverse"]) != rev or leaf[0]["ratio"] != (1 << k):
        bad.append("the %s-converter of ratio %d is instantiated between the two ports with the reverse option" % ("up" if up else "down", 1 << k))
    return bad


def get_port_task(cfg, tier):
    """executed exhaustively over the finite configuration grid of the property (labelled bounded: enumeration, not a proof)"""
    import json, time
    from vc.runner import replay_path
    res = []
    for mode, up, k, rev in GET_PORT_GRID:
        t0 = time.time()
        oid = "C07/Crossbar.get_port[mode=%s,ratio=%s,reverse=%s]/bounded/converted_port_covers_the_same_bytes_through_the_right_converter" % (
            mode, ("1:%d" if up else "%d:1") % (1 << k), rev)
        bad = _get_port_case(mode, up, k, rev)
        r = {"id": oid, "kind": "bounded", "status": "failed" if bad else "bounded-ok", "seconds": round(time.time() - t0, 3),
             "backend": "native-execution(real get_port, configuration grid)"}
        if bad:
            path = replay_path("C07", oid)
            json.dump({"property": "C07", "obligation": oid, "module": "contracts.c07", "kind": "pyargs",
                       "args": dict(mode=mode, up=up, k=k, reverse=rev), "failed_clauses": bad}, open(path, "w"), indent=1)
            r.update(replay=path, reproduced=True, witness=dict(failed_clauses=bad))
        res.append(r)
    return {"results": res}


def replay(rp):
    a = rp["args"]
    bad = _get_port_case(a["mode"], a["up"], a["k"], a["reverse"])
    print("replay %s: %s" % (rp["obligation"], ("VIOLATED on current tree: " + "; ".join(bad)) if bad else "not violated on current tree"))
    return 1 if bad else 0


UP_LANE_CFGS = [dict(to=16, **{"from": 8}), dict(to=32, **{"from": 8}), dict(to=16, reverse=True, **{"from": 8}),
                dict(to=32, reverse=True, **{"from": 8}), dict(to=64, reverse=True, **{"from": 16}), dict(to=64, **{"from": 8})]
UP_CFGS = [dict(to=16, **{"from": 8}), dict(to=32, **{"from": 8}), dict(to=16, reverse=True, **{"from": 8})]
DOWN_DATA_CFGS = [dict(to=8, **{"from": 16}), dict(to=8, **{"from": 32}), dict(to=8, reverse=True, **{"from": 16}),
                  dict(to=8, reverse=True, **{"from": 32}), dict(to=16, **{"from": 64}), dict(to=8, **{"from": 64})]
DOWN_CFGS = [dict(to=8, **{"from": 16}), dict(to=8, **{"from": 32}), dict(to=8, reverse=True, **{"from": 16})]


def tasks(tier):
    out = []
    d_up = 14 if tier == "quick" else 20
    d_dn = 14 if tier == "quick" else 16
    small = dict(aw_to=3, Q=2, Qw=2, Qr=2)
    for cfg in UP_CFGS[:1] if tier == "quick" else UP_CFGS:
        base = dict(cfg, depth=d_up, **small)
        # unrestricted: any address order (recorded finding: chunk-order pairing) -- incremental search finds it quickly
        out.append(dict(fn="conv_contract", cfg=base, modes=["bounded", "difftest"], depth=min(d_up, 10), weight=10,
                        timeout_ms=600000, difftest_cycles=80))
        # restricted to ascending chunks inside a wide word: the remaining behaviours
        out.append(dict(fn="conv_contract", cfg=dict(base, ascending_within_wide_word=True), modes=["bounded", "cover"],
                        depth=d_up, weight=40, timeout_ms=2700000, oneshot=True))
    for cfg in DOWN_CFGS[:1] if tier == "quick" else DOWN_CFGS:
        cfg2 = dict(cfg, depth=d_dn, **small)
        out.append(dict(fn="conv_contract", cfg=cfg2, modes=["bounded", "cover", "difftest"], depth=d_dn, weight=30,
                        timeout_ms=2400000, difftest_cycles=80, oneshot=True))
    for cfg in DOWN_CFGS:
        out.append(dict(fn="down_cmd_contract", cfg=cfg, modes=["inductive", "cover", "difftest"], weight=2))
    for cfg in UP_CFGS if tier != "quick" else UP_CFGS[:2]:
        d = 3 * (cfg["to"] // cfg["from"]) + 8 + (9 if tier == "quick" else 13)
        out.append(dict(fn="up_drain_contract", cfg=dict(cfg, depth=d), modes=["bounded", "cover"], depth=d, weight=10,
                        timeout_ms=1200000, oneshot=True))
    out.append(dict(kind="custom", fn="get_port_task", cfg={}, weight=3))
    for cfg in UP_LANE_CFGS:
        out.append(dict(fn="up_write_lanes_contract", cfg=cfg, modes=["inductive", "cover", "difftest"], weight=2))
        out.append(dict(fn="up_read_lanes_contract", cfg=cfg, modes=["inductive", "cover", "difftest"], weight=2))
        out.append(dict(fn="up_cmd_contract", cfg=cfg, modes=["inductive", "cover", "difftest"], weight=2))
    for cfg in DOWN_DATA_CFGS:
        out.append(dict(fn="down_data_contract", cfg=cfg, modes=["inductive", "cover", "difftest"], weight=2))
    return out
