"""Harness-process-only compatibility shims (no file in /repo or site-packages is changed) and constructor-locals capture.

(i)  migen.fhdl.tracer.get_var_name does not understand CPython 3.12 bytecode -> CSRStorage()/CSR() cannot infer their
     name.  Replaced by a dis-based equivalent.
(ii) the installed LiteX CSR lacks the wr_stb/rd_stb/wr_dat/rd_dat aliases this LiteDRAM revision uses.
Both are listed in the trusted base of every evidence file whose modules need them.
"""
import dis
import sys

_cache = {}


def _get_var_name(frame):
    code = frame.f_code
    ent = _cache.get(code)
    if ent is None:
        ins = list(dis.get_instructions(code))
        ent = (ins, {i.offset: n for n, i in enumerate(ins)})
        _cache[code] = ent
    lst, idx = ent
    n = idx.get(frame.f_lasti)
    if n is None or not lst[n].opname.startswith("CALL"):
        return None
    n += 1
    while n < len(lst):
        op = lst[n].opname
        if op in ("STORE_NAME", "STORE_ATTR", "STORE_FAST", "STORE_DEREF", "STORE_GLOBAL"):
            return lst[n].argval
        if op in ("CACHE", "COPY", "LOAD_FAST", "LOAD_GLOBAL", "LOAD_ATTR", "LOAD_DEREF", "LOAD_NAME", "BUILD_LIST",
                  "PRECALL", "SWAP", "LOAD_FAST_CHECK"):
            n += 1
            continue
        return None
    return None


def install():
    import migen.fhdl.tracer as tracer
    tracer.get_var_name = _get_var_name
    import litex.soc.interconnect.csr as _csr
    if not hasattr(_csr.CSR, "wr_stb"):
        _csr.CSR.wr_stb = property(lambda self: self.re)
        _csr.CSR.wr_dat = property(lambda self: self.r)
        _csr.CSR.rd_stb = property(lambda self: self.we)
        _csr.CSR.rd_dat = property(lambda self: self.w)


class capture_locals:
    """with capture_locals(Cls.__init__, other_fn, ...) as cap: obj = Cls(...)
    cap.of(obj) -> dict of the constructor's local variables at return (for functions: cap.calls[fn] list of dicts)."""

    def __init__(self, *funcs):
        self.codes = {}
        for f in funcs:
            f = getattr(f, "__func__", f)
            self.codes[f.__code__] = f
        self.by_self = {}
        self.calls = {}

    def _prof(self, frame, event, arg):
        if event == "return" and frame.f_code in self.codes:
            loc = dict(frame.f_locals)
            self.calls.setdefault(self.codes[frame.f_code].__qualname__, []).append(loc)
            if "self" in loc:
                self.by_self.setdefault(id(loc["self"]), {}).update(loc)

    def __enter__(self):
        self._old = sys.getprofile()
        sys.setprofile(self._prof)
        return self

    def __exit__(self, *a):
        sys.setprofile(self._old)

    def of(self, obj):
        return self.by_self[id(obj)]
