"""PyVC: verification conditions from the AST of the real Python functions (source re-read from /repo on every run).

A small symbolic interpreter for a stated subset of Python: integer / real arithmetic (+ - * / // % ** << >> & | ^),
comparisons, bool ops, conditional expressions, if/else, assignments (names, tuple unpacking, attributes of `self`),
augmented assignment, return, assert (-> obligation), raise (path ends; reaching it is an obligation failure unless the
contract allows it), for-loops over concrete sequences / dict.items() of concrete dicts (unrolled), dict / tuple / list
literals, subscripts (concrete, or symbolic key into a concrete dict -> ITE chain plus a KeyError-freedom obligation),
attribute reads (fields of symbolic records), calls to: ceil, floor, max, min, int, abs, len, log2_int, bits_for, getattr
(with default), known class constructors (records), other functions of the subset -- either *inlined* from their real
source or replaced by their *contract* (requires/ensures summary), as the sidecar decides.

Semantics assumed: Python int is mathematical (exact). Python float is treated as a REAL number (listed as an assumption
in the evidence; a run-time cross-check with exact Fraction arithmetic bounds it). Strings are concrete only.
Dropped: str.format() results (become opaque), docstrings, print.
A construct outside the subset raises OutOfSubset -> the obligation is reported `unknown` (exit 2), never `proved`.
"""
import ast
import inspect
import itertools
import textwrap
import z3


class OutOfSubset(Exception):
    pass


class PathEnd(Exception):
    """a path that ends in `raise`"""
    def __init__(self, exc_name):
        self.exc_name = exc_name


class Rec:
    """record: attribute -> value (symbolic object / settings / namedtuple)"""
    def __init__(self, fields=None, name="rec", tuple_fields=None):
        self.f = dict(fields or {})
        self.name = name
        self.tuple_fields = tuple_fields      # namedtuple order, if any

    def get(self, k):
        if k not in self.f:
            raise OutOfSubset("record %s has no attribute %r" % (self.name, k))
        return self.f[k]

    def __repr__(self):
        return "Rec(%s,%r)" % (self.name, self.f)


class Opaque:
    """value the encoding drops (formatted strings)"""
    def __repr__(self):
        return "<opaque>"


class Summary:
    """callee contract: requires(args...) -> Bool, result builder -> (value, ensures Bool)"""
    def __init__(self, fn):
        self.fn = fn


def _plain_data(v):
    if v is None or isinstance(v, (bool, int, float, str)):
        return True
    if isinstance(v, (list, tuple)):
        return all(_plain_data(x) for x in v)
    if isinstance(v, dict):
        return all(_plain_data(k) and _plain_data(x) for k, x in v.items())
    return False


def is_sym(v):
    return isinstance(v, z3.ExprRef)


def is_real(v):
    return isinstance(v, float) or (is_sym(v) and v.sort().kind() == z3.Z3_REAL_SORT)


def to_z3(v):
    if is_sym(v):
        return v
    if isinstance(v, bool):
        return z3.BoolVal(v)
    if isinstance(v, int):
        return z3.IntVal(v)
    if isinstance(v, float):
        from fractions import Fraction
        fr = Fraction(v)                      # exact value of the binary float
        # prefer the decimal literal's value when it round-trips (1e9, 7.5, 64e6/8192 are exact anyway)
        return z3.RealVal(str(fr.numerator)) / z3.RealVal(str(fr.denominator)) if fr.denominator != 1 else z3.RealVal(fr.numerator)
    raise OutOfSubset("cannot make a term of %r" % (v,))


def to_real(v):
    t = to_z3(v)
    if t.sort().kind() == z3.Z3_INT_SORT:
        return z3.ToReal(t)
    return t


def to_bool(v):
    if isinstance(v, bool):
        return z3.BoolVal(v)
    if v is None:
        return z3.BoolVal(False)
    if isinstance(v, (int, float)):
        return z3.BoolVal(bool(v))
    if isinstance(v, (Rec, tuple, Opaque)):
        return z3.BoolVal(True)
    if isinstance(v, (str, list, dict)):
        return z3.BoolVal(bool(v))
    if z3.is_bool(v):
        return v
    if is_sym(v):
        return v != 0
    raise OutOfSubset("truth value of %r" % (v,))


def ceil_(x):
    if isinstance(x, (int, float)):
        import math
        return math.ceil(x)
    if x.sort().kind() == z3.Z3_INT_SORT:
        return x
    return -z3.ToInt(-x)


def floor_(x):
    if isinstance(x, (int, float)):
        import math
        return math.floor(x)
    if x.sort().kind() == z3.Z3_INT_SORT:
        return x
    return z3.ToInt(x)


BITW = 40


def as_bv(x):
    """bit-vector view (BITW bits) of a non-negative integer term; BV2Int(bv) terms are unwrapped"""
    if isinstance(x, int):
        return z3.BitVecVal(x, BITW)
    if z3.is_app_of(x, z3.Z3_OP_BV2INT) and x.arg(0).size() == BITW:
        return x.arg(0)
    if z3.is_app_of(x, z3.Z3_OP_ITE) and x.sort().kind() == z3.Z3_INT_SORT:
        return z3.If(x.arg(0), as_bv(x.arg(1)), as_bv(x.arg(2)))
    if z3.is_int_value(x):
        return z3.BitVecVal(x.as_long(), BITW)
    return z3.Int2BV(x, BITW)


def _bitop(op, a, b):
    """bitwise ops on mathematical integers: exact when both are concrete; symbolic non-negative operands below 2**BITW go
    through bit-vectors (an obligation `0 <= x < 2**BITW` is recorded by the caller)"""
    if isinstance(a, int) and isinstance(b, int):
        return {"&": a & b, "|": a | b, "^": a ^ b}[op]
    x, y = as_bv(to_z3(a) if not isinstance(a, int) else a), as_bv(to_z3(b) if not isinstance(b, int) else b)
    r = {"&": x & y, "|": x | y, "^": x ^ y}[op]
    return z3.BV2Int(r)


def _is_bvint(x):
    return is_sym(x) and z3.is_app_of(x, z3.Z3_OP_BV2INT)


class State:
    def __init__(self, env, pc):
        self.env = env          # name -> value
        self.pc = pc            # list of z3 Bool

    def fork(self, cond):
        return State(dict(self.env), self.pc + [cond])


class Interp:
    def __init__(self, functions=None, summaries=None, classes=None, globals_=None, max_paths=4000):
        self.functions = dict(functions or {})      # name -> python function (inlined from real source)
        self.summaries = dict(summaries or {})      # name -> Summary
        self.classes = dict(classes or {})          # name -> callable(args, kwargs) -> value
        self.globals = dict(globals_ or {})
        self.obligations = []                       # (kind, pc list, goal Bool, where)
        self.dropped = set()
        self.max_paths = max_paths
        self.module_globals = {}
        self.npaths = 0
        self._ast_cache = {}

    # -- source
    def fn_ast(self, fn):
        fn = getattr(fn, "fget", fn)
        fn = getattr(fn, "__func__", fn)
        k = fn
        if k not in self._ast_cache:
            src = textwrap.dedent(inspect.getsource(fn))
            tree = ast.parse(src)
            node = tree.body[0]
            self._ast_cache[k] = node
        return self._ast_cache[k]

    def oblige(self, kind, st, goal, where):
        self.obligations.append((kind, list(st.pc), goal, where))

    # -- calling a function of the subset
    def call_function(self, fn, args, kwargs, st):
        node = fn if isinstance(fn, ast.FunctionDef) else self.fn_ast(fn)
        g = getattr(getattr(getattr(fn, "fget", fn), "__func__", getattr(fn, "fget", fn)), "__globals__", None)
        if g is not None and not self.module_globals:
            self.module_globals = g
        env = dict(getattr(fn, "_closure_env", {}))
        params = node.args
        names = [a.arg for a in params.args]
        defaults = params.defaults
        bound = {}
        for n, v in zip(names, args):
            bound[n] = v
        if len(args) > len(names):
            raise OutOfSubset("too many positional args")
        kw = dict(kwargs)
        for i, n in enumerate(names):
            if n in bound:
                continue
            if n in kw:
                bound[n] = kw.pop(n)
            else:
                di = i - (len(names) - len(defaults))
                if di < 0:
                    raise OutOfSubset("missing argument %s" % n)
                bound[n] = self.eval_const_default(defaults[di])
        if params.kwarg is not None:
            bound[params.kwarg.arg] = kw
        elif kw:
            raise OutOfSubset("unexpected keyword %s" % list(kw))
        env.update(bound)
        results = []
        callee_state = State(env, list(st.pc))
        for (s2, ret) in self.exec_block(node.body, callee_state, in_function=node):
            results.append((s2.pc, ret if ret is not _NORET else None, s2.env))
        return results

    def eval_const_default(self, node):
        return ast.literal_eval(node)

    # -- statements: generator of (state, retval or _NORET)
    def exec_block(self, stmts, st, in_function=None):
        if not stmts:
            yield (st, _NORET)
            return
        head, rest = stmts[0], stmts[1:]
        for (s2, ret) in self.exec_stmt(head, st, in_function):
            if ret is not _NORET:
                yield (s2, ret)
            else:
                yield from self.exec_block(rest, s2, in_function)

    def exec_stmt(self, node, st, fn):
        self.npaths += 1
        if self.npaths > self.max_paths * 50:
            raise OutOfSubset("path explosion")
        if isinstance(node, ast.Expr):
            if isinstance(node.value, ast.Constant):
                yield (st, _NORET)       # docstring
                return
            for (s2, _v) in self.eval(node.value, st):
                yield (s2, _NORET)
            return
        if isinstance(node, ast.Return):
            if node.value is None:
                yield (st, None)
                return
            for (s2, v) in self.eval(node.value, st):
                yield (s2, v)
            return
        if isinstance(node, ast.Assign):
            for (s2, v) in self.eval(node.value, st):
                s3 = State(dict(s2.env), s2.pc)
                for tgt in node.targets:
                    self.assign(tgt, v, s3)
                yield (s3, _NORET)
            return
        if isinstance(node, ast.AugAssign):
            binop = ast.BinOp(left=_load(node.target), op=node.op, right=node.value)
            for (s2, v) in self.eval(binop, st):
                s3 = State(dict(s2.env), s2.pc)
                self.assign(node.target, v, s3)
                yield (s3, _NORET)
            return
        if isinstance(node, ast.If):
            for (s2, c) in self.eval(node.test, st):
                cb = to_bool(c)
                cb = z3.simplify(cb)
                if z3.is_true(cb):
                    yield from self.exec_block(node.body, s2, fn)
                elif z3.is_false(cb):
                    yield from self.exec_block(node.orelse, s2, fn)
                else:
                    if self.feasible(s2.pc + [cb]):
                        yield from self.exec_block(node.body, s2.fork(cb), fn)
                    if self.feasible(s2.pc + [z3.Not(cb)]):
                        yield from self.exec_block(node.orelse, s2.fork(z3.Not(cb)), fn)
            return
        if isinstance(node, ast.Assert):
            for (s2, c) in self.eval(node.test, st):
                cb = to_bool(c)
                self.oblige("assert", s2, cb, "line %d: assert %s" % (node.lineno, ast.unparse(node.test)[:80]))
                yield (s2.fork(cb), _NORET)
            return
        if isinstance(node, ast.Raise):
            name = ast.unparse(node.exc)[:60] if node.exc is not None else "raise"
            self.oblige("raise", st, z3.BoolVal(False), "line %d: reaches raise %s" % (node.lineno, name))
            return
        if isinstance(node, ast.For):
            for (s2, it) in self.eval(node.iter, st):
                if isinstance(it, dict):
                    it = list(it.keys())
                it = [tuple(x) if isinstance(x, list) else x for x in it] if isinstance(it, list) else it
                if not isinstance(it, (list, tuple)):
                    raise OutOfSubset("for over a non-concrete iterable")
                yield from self.exec_for(node, list(it), s2, fn)
            return
        if isinstance(node, ast.FunctionDef):
            s2 = State(dict(st.env), st.pc)
            node._closure_env = s2.env       # nested function closes over the defining environment (by reference)
            s2.env[node.name] = _Nested(node, s2.env)
            yield (s2, _NORET)
            return
        if isinstance(node, ast.Pass):
            yield (st, _NORET)
            return
        if isinstance(node, (ast.Import, ast.ImportFrom)):
            yield (st, _NORET)
            return
        if isinstance(node, ast.Try):
            raise OutOfSubset("try/except")
        raise OutOfSubset("statement %s" % type(node).__name__)

    def exec_for(self, node, items, st, fn):
        if not items:
            yield (st, _NORET)
            return
        s2 = State(dict(st.env), st.pc)
        self.assign(node.target, items[0], s2)
        for (s3, ret) in self.exec_block(node.body, s2, fn):
            if ret is not _NORET:
                yield (s3, ret)
            else:
                yield from self.exec_for(node, items[1:], s3, fn)

    def feasible(self, pc):
        s = z3.Solver()
        s.set("timeout", 2000)
        for c in pc:
            s.add(c)
        return s.check() != z3.unsat

    def assign(self, tgt, v, st):
        if isinstance(tgt, ast.Name):
            st.env[tgt.id] = v
        elif isinstance(tgt, (ast.Tuple, ast.List)):
            if isinstance(v, Rec) and v.tuple_fields:
                v = tuple(v.f[k] for k in v.tuple_fields)
            if not isinstance(v, (tuple, list)) or len(v) != len(tgt.elts):
                raise OutOfSubset("tuple unpack of %r" % (v,))
            for t, x in zip(tgt.elts, v):
                self.assign(t, x, st)
        elif isinstance(tgt, ast.Attribute) and isinstance(tgt.value, ast.Name):
            obj = st.env.get(tgt.value.id)
            if not isinstance(obj, Rec):
                raise OutOfSubset("attribute store on non-record")
            obj2 = Rec(dict(obj.f), obj.name, obj.tuple_fields)
            obj2.f[tgt.attr] = v
            st.env[tgt.value.id] = obj2
        elif (isinstance(tgt, ast.Attribute) and isinstance(tgt.value, ast.Attribute)
              and isinstance(tgt.value.value, ast.Name)):
            outer = st.env.get(tgt.value.value.id)
            if not isinstance(outer, Rec) or not isinstance(outer.f.get(tgt.value.attr), Rec):
                raise OutOfSubset("nested attribute store on non-record")
            inner = outer.f[tgt.value.attr]
            inner2 = Rec(dict(inner.f), inner.name, inner.tuple_fields)
            inner2.f[tgt.attr] = v
            outer2 = Rec(dict(outer.f), outer.name, outer.tuple_fields)
            outer2.f[tgt.value.attr] = inner2
            st.env[tgt.value.value.id] = outer2
        elif isinstance(tgt, ast.Subscript) and isinstance(tgt.value, ast.Name):
            obj = st.env.get(tgt.value.id)
            if not isinstance(obj, dict):
                raise OutOfSubset("subscript store on non-dict")
            keys = list(self.eval(tgt.slice, st))
            if len(keys) != 1 or is_sym(keys[0][1]):
                raise OutOfSubset("symbolic key in subscript store")
            obj2 = dict(obj)
            obj2[keys[0][1]] = v
            st.env[tgt.value.id] = obj2
        else:
            raise OutOfSubset("assignment target %s" % type(tgt).__name__)

    # -- expressions: generator of (state, value)
    def eval(self, node, st):
        m = getattr(self, "ev_" + type(node).__name__, None)
        if m is None:
            raise OutOfSubset("expression %s" % type(node).__name__)
        yield from m(node, st)

    def eval_list(self, nodes, st):
        if not nodes:
            yield (st, [])
            return
        for (s2, v) in self.eval(nodes[0], st):
            for (s3, rest) in self.eval_list(nodes[1:], s2):
                yield (s3, [v] + rest)

    def ev_Constant(self, node, st):
        yield (st, node.value)

    def ev_Name(self, node, st):
        if node.id in st.env:
            yield (st, st.env[node.id])
        elif node.id in self.globals:
            yield (st, self.globals[node.id])
        elif node.id in self.functions or node.id in self.summaries or node.id in self.classes or node.id in _BUILTINS:
            yield (st, _FnRef(node.id))
        elif node.id in ("True", "False", "None"):
            yield (st, {"True": True, "False": False, "None": None}[node.id])
        elif node.id in self.module_globals and _plain_data(self.module_globals[node.id]):
            yield (st, self.module_globals[node.id])          # module-level constant / table of the real module
        elif node.id in self.module_globals and inspect.isfunction(self.module_globals[node.id]):
            self.functions[node.id] = self.module_globals[node.id]
            yield (st, _FnRef(node.id))
        else:
            raise OutOfSubset("unknown name %s" % node.id)

    def ev_Tuple(self, node, st):
        for (s2, vs) in self.eval_list(node.elts, st):
            yield (s2, tuple(vs))

    def ev_List(self, node, st):
        for (s2, vs) in self.eval_list(node.elts, st):
            yield (s2, list(vs))

    def ev_Dict(self, node, st):
        for (s2, ks) in self.eval_list(node.keys, st):
            for (s3, vs) in self.eval_list(node.values, s2):
                for k in ks:
                    if is_sym(k):
                        raise OutOfSubset("symbolic dict key in literal")
                yield (s3, dict(zip(ks, vs)))

    def ev_JoinedStr(self, node, st):
        self.dropped.add("f-string")
        yield (st, Opaque())

    def ev_IfExp(self, node, st):
        for (s2, c) in self.eval(node.test, st):
            cb = z3.simplify(to_bool(c))
            if z3.is_true(cb):
                yield from self.eval(node.body, s2)
            elif z3.is_false(cb):
                yield from self.eval(node.orelse, s2)
            else:
                if self.feasible(s2.pc + [cb]):
                    yield from self.eval(node.body, s2.fork(cb))
                if self.feasible(s2.pc + [z3.Not(cb)]):
                    yield from self.eval(node.orelse, s2.fork(z3.Not(cb)))

    def ev_BoolOp(self, node, st):
        for (s2, vs) in self.eval_list(node.values, st):
            bs = [to_bool(v) for v in vs]
            r = z3.And(*bs) if isinstance(node.op, ast.And) else z3.Or(*bs)
            # python returns an operand, not a bool; only truth-value uses are in the subset
            yield (s2, z3.simplify(r))

    def ev_UnaryOp(self, node, st):
        for (s2, v) in self.eval(node.operand, st):
            if isinstance(node.op, ast.Not):
                yield (s2, z3.simplify(z3.Not(to_bool(v))))
            elif isinstance(node.op, ast.USub):
                yield (s2, -v if not is_sym(v) else -v)
            elif isinstance(node.op, ast.UAdd):
                yield (s2, v)
            elif isinstance(node.op, ast.Invert):
                if is_sym(v):
                    yield (s2, -v - 1)
                else:
                    yield (s2, ~v)
            else:
                raise OutOfSubset("unary op")

    def ev_Compare(self, node, st):
        for (s2, l) in self.eval(node.left, st):
            for (s3, rs) in self.eval_list(node.comparators, s2):
                vals = [l] + rs
                conj = []
                for op, a, b in zip(node.ops, vals, vals[1:]):
                    conj.append(self.compare(op, a, b))
                r = conj[0] if len(conj) == 1 else z3.And(*[to_bool(c) for c in conj])
                yield (s3, r)

    def compare(self, op, a, b):
        if isinstance(op, (ast.Is, ast.IsNot)):
            r = (a is None and b is None) if (a is None or b is None) else None
            if a is None or b is None:
                r = (a is None) and (b is None)
                return (not r) if isinstance(op, ast.IsNot) else r
            raise OutOfSubset("`is` on non-None")
        if isinstance(op, (ast.In, ast.NotIn)):
            if isinstance(b, (list, tuple, dict)):
                if is_sym(a):
                    r = z3.Or(*[a == to_z3(x) for x in b if isinstance(x, (int, float))]) if b else z3.BoolVal(False)
                else:
                    r = a in b
                if isinstance(op, ast.NotIn):
                    return z3.Not(r) if is_sym(r) else (not r)
                return r
            if isinstance(a, str) and isinstance(b, str):
                r = a in b
                return (not r) if isinstance(op, ast.NotIn) else r
            raise OutOfSubset("`in` on %r" % (b,))
        if not is_sym(a) and not is_sym(b):
            if isinstance(a, (Rec, Opaque)) or isinstance(b, (Rec, Opaque)):
                raise OutOfSubset("comparison of records")
            return {ast.Eq: a == b, ast.NotEq: a != b}.get(type(op), None) if isinstance(op, (ast.Eq, ast.NotEq)) else \
                {ast.Lt: lambda: a < b, ast.LtE: lambda: a <= b, ast.Gt: lambda: a > b, ast.GtE: lambda: a >= b}[type(op)]()
        if a is None or b is None:
            return isinstance(op, ast.NotEq)
        if isinstance(a, str) or isinstance(b, str):
            raise OutOfSubset("symbolic string comparison")
        x, y = self.coerce(a, b)
        return {ast.Eq: lambda: x == y, ast.NotEq: lambda: x != y, ast.Lt: lambda: x < y, ast.LtE: lambda: x <= y,
                ast.Gt: lambda: x > y, ast.GtE: lambda: x >= y}[type(op)]()

    def coerce(self, a, b):
        if z3.is_bool(a) if is_sym(a) else False:
            a = z3.If(a, z3.IntVal(1), z3.IntVal(0))
        if z3.is_bool(b) if is_sym(b) else False:
            b = z3.If(b, z3.IntVal(1), z3.IntVal(0))
        if is_real(a) or is_real(b):
            return to_real(a), to_real(b)
        return to_z3(a), to_z3(b)

    def ev_BinOp(self, node, st):
        for (s2, a) in self.eval(node.left, st):
            for (s3, b) in self.eval(node.right, s2):
                yield (s3, self.binop(node.op, a, b, s3, node))

    def binop(self, op, a, b, st, node=None):
        if isinstance(a, Rec) and isinstance(op, ast.Add) and isinstance(b, Rec) and "__add__" in a.f.get("@methods", {}):
            res = self.call_function(a.f["@methods"]["__add__"], [a, b], {}, st)
            if len(res) != 1:
                raise OutOfSubset("__add__ with several paths")
            return res[0][1]
        if isinstance(a, (list, tuple)) and isinstance(op, ast.Add) and isinstance(b, type(a)):
            return a + b
        if isinstance(a, str) and isinstance(op, ast.Add) and isinstance(b, str):
            return a + b
        if isinstance(a, str) and isinstance(op, ast.Mod):
            self.dropped.add("%-format")
            return Opaque()
        if isinstance(a, (Opaque,)) or isinstance(b, (Opaque,)):
            return Opaque()
        if a is None or b is None:
            raise OutOfSubset("arithmetic on None (TypeError in Python)")
        if not is_sym(a) and not is_sym(b):
            import operator as o
            table = {ast.Add: o.add, ast.Sub: o.sub, ast.Mult: o.mul, ast.Div: o.truediv, ast.FloorDiv: o.floordiv,
                     ast.Mod: o.mod, ast.Pow: o.pow, ast.LShift: o.lshift, ast.RShift: o.rshift, ast.BitAnd: o.and_,
                     ast.BitOr: o.or_, ast.BitXor: o.xor}
            return table[type(op)](a, b)
        if isinstance(op, (ast.BitAnd, ast.BitOr, ast.BitXor)):
            for x in (a, b):
                if is_sym(x):
                    self.oblige("bitop-range", st, z3.And(x >= 0, x < 2 ** BITW), "bitwise operand within 0..2^%d" % BITW)
            return _bitop({ast.BitAnd: "&", ast.BitOr: "|", ast.BitXor: "^"}[type(op)], a, b)
        if isinstance(op, ast.LShift):
            if is_sym(b):
                raise OutOfSubset("symbolic shift amount")
            if _is_bvint(a) or z3.is_app_of(to_z3(a), z3.Z3_OP_ITE):
                self.oblige("bitop-range", st, z3.And(a >= 0, a < 2 ** (BITW - b)), "left shift stays below 2^%d" % BITW)
                return z3.BV2Int(as_bv(a) << b)
            return to_z3(a) * (2 ** b)
        if isinstance(op, ast.RShift):
            if is_sym(b):
                raise OutOfSubset("symbolic shift amount")
            if to_z3(a).sort().kind() != z3.Z3_INT_SORT:
                raise OutOfSubset("shift of a non-integer")
            if _is_bvint(a) or z3.is_app_of(to_z3(a), z3.Z3_OP_ITE):
                return z3.BV2Int(z3.LShR(as_bv(a), b))
            return to_z3(a) / z3.IntVal(2 ** b)
        if isinstance(op, ast.Pow):
            if is_sym(b) or is_sym(a):
                raise OutOfSubset("symbolic power")
        x, y = self.coerce(a, b)
        if isinstance(op, ast.Add):
            return x + y
        if isinstance(op, ast.Sub):
            return x - y
        if isinstance(op, ast.Mult):
            return x * y
        if isinstance(op, ast.Div):
            self.oblige("div0", st, to_real(b) != 0, "division by zero")
            return to_real(a) / to_real(b)
        if isinstance(op, ast.FloorDiv):
            self.oblige("div0", st, y != 0, "division by zero")
            if x.sort().kind() == z3.Z3_INT_SORT:
                return z3.ToInt(z3.ToReal(x) / z3.ToReal(y))       # floor, as Python // on ints
            return z3.ToReal(z3.ToInt(x / y))                      # float // float is a float holding the floor
        if isinstance(op, ast.Mod):
            self.oblige("div0", st, y != 0, "modulo by zero")
            if x.sort().kind() == z3.Z3_INT_SORT:
                return x - y * z3.ToInt(z3.ToReal(x) / z3.ToReal(y))
            raise OutOfSubset("real modulo")
        raise OutOfSubset("binary op %s" % type(op).__name__)

    def ev_Attribute(self, node, st):
        for (s2, obj) in self.eval(node.value, st):
            if isinstance(obj, Rec):
                if node.attr in obj.f:
                    yield (s2, obj.f[node.attr])
                elif ("@method", node.attr) in obj.f or node.attr in obj.f.get("@methods", {}):
                    yield (s2, _Bound(obj, obj.f["@methods"][node.attr]))
                elif node.attr in obj.f.get("@props", {}):
                    # property: evaluate the getter on the record
                    getter = obj.f["@props"][node.attr]
                    if isinstance(getter, Summary):
                        val, ens = getter.fn(self, s2, [obj], {})
                        s3 = s2.fork(ens) if ens is not None else s2
                        yield (s3, val)
                    else:
                        for (pc, ret, _e) in self.call_function(getter, [obj], {}, s2):
                            yield (State(s2.env, pc), ret)
                else:
                    raise OutOfSubset("record %s has no attribute %r" % (obj.name, node.attr))
            elif isinstance(obj, _ModRef):
                yield (s2, _FnRef(node.attr))
            elif isinstance(obj, dict) and node.attr in ("items", "keys", "values"):
                yield (s2, _DictMeth(obj, node.attr))
            else:
                raise OutOfSubset("attribute %s of %r" % (node.attr, type(obj).__name__))

    def ev_Subscript(self, node, st):
        for (s2, obj) in self.eval(node.value, st):
            if isinstance(node.slice, ast.Slice):
                raise OutOfSubset("slice")
            for (s3, key) in self.eval(node.slice, s2):
                if isinstance(obj, Rec) and obj.tuple_fields and isinstance(key, int):
                    yield (s3, obj.f[obj.tuple_fields[key]])
                elif isinstance(obj, (tuple, list)):
                    if is_sym(key):
                        raise OutOfSubset("symbolic sequence index")
                    yield (s3, obj[key])
                elif isinstance(obj, dict):
                    if not is_sym(key):
                        if key not in obj:
                            self.oblige("keyerror", s3, z3.BoolVal(False), "line %d: key %r not in table" % (node.lineno, key))
                            continue
                        yield (s3, obj[key])
                    else:
                        keys = [k for k in obj if isinstance(k, (int, float))]
                        self.oblige("keyerror", s3, z3.Or(*[key == to_z3(k) for k in keys]) if keys else z3.BoolVal(False),
                                    "line %d: %s[...] key always present" % (node.lineno, ast.unparse(node.value)[:40]))
                        vals = [obj[k] for k in keys]
                        if all(isinstance(v, (int, float)) or is_sym(v) for v in vals):
                            r = to_z3(vals[-1])
                            for k, v in reversed(list(zip(keys, vals))[:-1]):
                                x, y = self.coerce(v, r)
                                r = z3.If(key == to_z3(k), x, y)
                            yield (s3.fork(z3.Or(*[key == to_z3(k) for k in keys])), r)
                        else:
                            for k in keys:          # non-scalar entries: split the path per key
                                c = key == to_z3(k)
                                if self.feasible(s3.pc + [c]):
                                    yield (s3.fork(c), obj[k])
                elif isinstance(obj, _SymSeq):
                    yield (s3, obj.get(key))
                else:
                    raise OutOfSubset("subscript of %r" % (type(obj).__name__,))

    def ev_Call(self, node, st):
        if isinstance(node.func, ast.Attribute) and node.func.attr == "format" and isinstance(node.func.value, ast.Constant) \
                and isinstance(node.func.value.value, str):
            self.dropped.add("str.format (labels/comments)")
            for (s2, _a) in self.eval_list(list(node.args), st):
                yield (s2, Opaque())
            return
        for (s2, fref) in self.eval(node.func, st):
            for (s3, args) in self.eval_list([a for a in node.args if not isinstance(a, ast.Starred)], s2):
                if any(isinstance(a, ast.Starred) for a in node.args):
                    raise OutOfSubset("*args")
                kwnodes = [k for k in node.keywords if k.arg is not None]
                star = [k for k in node.keywords if k.arg is None]
                for (s4, kvals) in self.eval_list([k.value for k in kwnodes], s3):
                    kwargs = dict(zip([k.arg for k in kwnodes], kvals))
                    s5 = s4
                    if star:
                        for (s5, extra) in self.eval_list([k.value for k in star], s4):
                            for e in extra:
                                if not isinstance(e, dict):
                                    raise OutOfSubset("** of non-dict")
                                kwargs.update(e)
                            yield from self.do_call(fref, args, kwargs, s5, node)
                    else:
                        yield from self.do_call(fref, args, kwargs, s5, node)

    def do_call(self, fref, args, kwargs, st, node):
        if isinstance(fref, _Bound):
            args = [fref.obj] + list(args)
            target = fref.fn
            if isinstance(target, Summary):
                val, ens = target.fn(self, st, args, kwargs)
                yield (st.fork(ens) if ens is not None else st, val)
                return
            for (pc, ret, _e) in self.call_function(target, args, kwargs, st):
                yield (State(st.env, pc), ret)
            return
        if isinstance(fref, _Nested):
            fn = fref.node
            fn._closure_env = fref.env
            for (pc, ret, _e) in self.call_function(fn, args, kwargs, st):
                yield (State(st.env, pc), ret)
            return
        if isinstance(fref, _DictMeth):
            d = fref.d
            yield (st, {"items": list(d.items()), "keys": list(d.keys()), "values": list(d.values())}[fref.which])
            return
        if not isinstance(fref, _FnRef):
            raise OutOfSubset("call of %r" % (fref,))
        name = fref.name
        if name in self.summaries:
            val, ens = self.summaries[name].fn(self, st, args, kwargs)
            yield (st.fork(ens) if ens is not None else st, val)
            return
        if name in self.classes:
            yield (st, self.classes[name](args, kwargs))
            return
        if name in self.functions:
            for (pc, ret, _e) in self.call_function(self.functions[name], args, kwargs, st):
                yield (State(st.env, pc), ret)
            return
        if name in _BUILTINS:
            yield (st, _BUILTINS[name](self, st, args, kwargs))
            return
        raise OutOfSubset("call of unknown function %s" % name)


def _load(t):
    import copy
    t2 = copy.deepcopy(t)
    for n in ast.walk(t2):
        if hasattr(n, "ctx"):
            n.ctx = ast.Load()
    return t2


class _NoRet:
    pass


_NORET = _NoRet()


class _FnRef:
    def __init__(self, name):
        self.name = name


class _ModRef:
    def __init__(self, name):
        self.name = name


class _Bound:
    def __init__(self, obj, fn):
        self.obj, self.fn = obj, fn


class _DictMeth:
    def __init__(self, d, which):
        self.d, self.which = d, which


class _Nested:
    def __init__(self, node, env):
        self.node, self.env = node, env


class _SymSeq:
    """symbolic sequence of bounded integers (e.g. SPD bytes): index -> z3 Int"""
    def __init__(self, name, lo=0, hi=255):
        self.name, self.lo, self.hi = name, lo, hi
        self.items = {}

    def get(self, i):
        if is_sym(i):
            raise OutOfSubset("symbolic index into symbolic sequence")
        if i not in self.items:
            self.items[i] = z3.Int("%s_%d" % (self.name, i))
        return self.items[i]

    def constraints(self):
        return [z3.And(v >= self.lo, v <= self.hi) for v in self.items.values()]


def _b_max(I, st, args, kw):
    if len(args) == 1 and isinstance(args[0], (list, tuple)):
        args = list(args[0])
    r = args[0]
    for a in args[1:]:
        if not is_sym(r) and not is_sym(a):
            r = max(r, a)
        else:
            x, y = I.coerce(r, a)
            r = z3.If(x >= y, x, y)
    return r


def _b_min(I, st, args, kw):
    if len(args) == 1 and isinstance(args[0], (list, tuple)):
        args = list(args[0])
    r = args[0]
    for a in args[1:]:
        if not is_sym(r) and not is_sym(a):
            r = min(r, a)
        else:
            x, y = I.coerce(r, a)
            r = z3.If(x <= y, x, y)
    return r


def _b_int(I, st, args, kw):
    v = args[0]
    if not is_sym(v):
        return int(v)
    if v.sort().kind() == z3.Z3_INT_SORT:
        return v
    return z3.If(v >= 0, z3.ToInt(v), -z3.ToInt(-v))


def _b_abs(I, st, args, kw):
    v = args[0]
    if not is_sym(v):
        return abs(v)
    return z3.If(v >= 0, v, -v)


def _b_log2_int(I, st, args, kw):
    n = args[0]
    if is_sym(n):
        raise OutOfSubset("log2_int of a symbolic value")
    need = kw.get("need_pow2", args[1] if len(args) > 1 else True)
    if n == 0:
        return 0
    r = (n - 1).bit_length()
    if need and (1 << r) != n:
        I.oblige("raise", st, z3.BoolVal(False), "log2_int(%d): not a power of two" % n)
    return r


def _b_getattr(I, st, args, kw):
    obj, name = args[0], args[1]
    if not isinstance(obj, Rec):
        raise OutOfSubset("getattr on non-record")
    if name in obj.f:
        return obj.f[name]
    if len(args) > 2:
        return args[2]
    raise OutOfSubset("getattr without default on missing attribute")


def _b_hasattr(I, st, args, kw):
    obj, name = args[0], args[1]
    if not isinstance(obj, Rec):
        raise OutOfSubset("hasattr on non-record")
    return name in obj.f


def _b_len(I, st, args, kw):
    return len(args[0])


def _b_range(I, st, args, kw):
    return list(range(*args))


def _b_isinstance(I, st, args, kw):
    raise OutOfSubset("isinstance")


_BUILTINS = {
    "ceil": lambda I, st, a, k: ceil_(a[0]), "floor": lambda I, st, a, k: floor_(a[0]),
    "max": _b_max, "min": _b_min, "int": _b_int, "abs": _b_abs, "log2_int": _b_log2_int, "getattr": _b_getattr,
    "hasattr": _b_hasattr, "len": _b_len, "range": _b_range, "bool": lambda I, st, a, k: to_bool(a[0]),
    "float": lambda I, st, a, k: (float(a[0]) if not is_sym(a[0]) else to_real(a[0])),
    "isinstance": _b_isinstance,
}


# ---------------------------------------------------------------------------------------------------------------------
# discharging
# ---------------------------------------------------------------------------------------------------------------------

def prove(pc, goal, timeout_ms=20000, extra=()):
    """valid(pc => goal)?  returns ('proved'|'failed'|'unknown', model or None, seconds, backend)"""
    import time
    t0 = time.time()
    s = z3.Solver()
    s.set("timeout", timeout_ms)
    for c in list(pc) + list(extra):
        s.add(c)
    s.add(z3.Not(goal))
    r = s.check()
    if r == z3.unsat:
        return "proved", None, time.time() - t0, "z3-%s" % z3.get_version_string()
    if r == z3.sat:
        return "failed", s.model(), time.time() - t0, "z3-%s" % z3.get_version_string()
    # second solver: cvc5 on the SMT-LIB text
    st2 = _cvc5(s.to_smt2(), timeout_ms)
    if st2 == "unsat":
        return "proved", None, time.time() - t0, "cvc5"
    return "unknown", None, time.time() - t0, "z3+cvc5"


def _cvc5(smt2, timeout_ms):
    import subprocess
    import tempfile
    import os
    with tempfile.NamedTemporaryFile("w", suffix=".smt2", delete=False) as f:
        f.write("(set-logic ALL)\n" + smt2)
        path = f.name
    try:
        out = subprocess.run(["/usr/bin/cvc5", "--tlimit=%d" % timeout_ms, path], capture_output=True, text=True,
                             timeout=timeout_ms / 1000.0 + 5).stdout.strip().splitlines()
        return out[0] if out else "unknown"
    except Exception:  # noqa
        return "unknown"
    finally:
        os.unlink(path)
