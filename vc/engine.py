"""Contracts on elaborated Migen modules and the obligation drivers (induction, k-induction, combinational validity,
bounded-from-reset, bounded response from an arbitrary invariant state, covers), the native simulator stepping used for
replay, and the extractor-vs-simulator differential test."""
import collections
import sys
import random
import time
import z3
from migen.fhdl.structure import Signal, _Value
from migen.genlib.record import Record
from . import hwvc

if hasattr(sys, "set_int_max_str_digits"):
    sys.set_int_max_str_digits(0)            # z3 numerals of very wide concatenations (difftest batches)
from .hwvc import Translator, Frame, elaborate, signame, bvconst

TIMEOUT_MS = 120000


def flatten_signals(items):
    out = []
    for it in items:
        if it is None:
            continue
        if isinstance(it, Signal):
            out.append(it)
        elif isinstance(it, Record):
            out.extend(it.flatten())
        elif isinstance(it, (list, tuple, set)):
            out.extend(flatten_signals(it))
        else:
            raise TypeError("cannot flatten %r" % (it,))
    return out


class _NS:
    def __init__(self, d):
        self.__dict__["_d"] = d

    def __getattr__(self, k):
        try:
            return self._d[k]
        except KeyError:
            raise AttributeError(k)

    def __getitem__(self, k):
        return self._d[k]


class FrameView:
    """what a contract clause sees of one time frame"""

    def __init__(self, contract, frame, ghosts, ticks, nxt_view=None):
        self.contract = contract
        self.frame = frame
        self.g = _NS(ghosts)
        self.c = _NS(contract.rigid_consts)
        self.tick = ticks            # dict cd -> z3 Bool
        self.nxt_view = nxt_view     # only in opaque (native) mode
        self._nx = None

    def __call__(self, sig):
        return self.frame.sigval(sig)

    def b(self, sig):
        return self.frame.ev(sig).bv != 0 if not isinstance(sig, Signal) else self.frame.sigval(sig) != 0

    def e(self, expr):
        return self.frame.ev(expr).bv

    def nx(self, reg):
        """value of a register after this step"""
        if self.frame.opaque:
            return self.nxt_view.frame.sigval(reg)
        if self._nx is None:
            self._nx = self.contract.next_state(self)
        return self._nx[reg]


Ghost = collections.namedtuple("Ghost", "name width init nxt")


class Contract:
    def __init__(self, name, module, free, k=1, domains=None, ns=None, cfg=None):
        self.name = name
        self.module = module
        self.k = k
        self.ns = ns or {}
        self.cfg = cfg
        self.frag = elaborate(module)
        self.free_list = []
        seen = set()
        for s in flatten_signals(free):
            if s not in seen:
                seen.add(s)
                self.free_list.append(s)
        self.tr = Translator(self.frag, free=seen)
        bad = [signame(s) for s in self.free_list if s not in self.tr.undriven and s in self.tr.allsigs]
        # declared inputs the design never reads (absent from the fragment) stay inputs: contracts may constrain them
        self.free_list = [s for s in self.free_list if s in self.tr.undriven or s not in self.tr.allsigs]
        self.driven_declared_free = bad
        self.tr.free = set(self.free_list)
        self.domains = domains or sorted(self.tr.sync.keys()) or ["sys"]
        self.ghosts = collections.OrderedDict()
        self.rigid_consts = collections.OrderedDict()
        self.assumes = collections.OrderedDict()
        self.invariants = collections.OrderedDict()
        self.ensures_ = collections.OrderedDict()
        self.covers = collections.OrderedDict()
        self.bounded_ = collections.OrderedDict()
        self.responses = collections.OrderedDict()
        self.windows = collections.OrderedDict()
        self.cover_after = {}
        self.tick_assume = None

    # -- declaration API
    def ghost(self, name, width, init, nxt):
        self.ghosts[name] = Ghost(name, width, init, nxt)

    def rigid(self, name, width):
        c = z3.Bool("c_" + name) if width == "bool" else z3.BitVec("c_" + name, width)
        self.rigid_consts[name] = c
        return c

    def assume(self, name, fn):
        self.assumes[name] = fn

    def invariant(self, name, fn):
        self.invariants[name] = fn

    def ensures(self, name, fn):
        self.ensures_[name] = fn

    def cover(self, name, fn, within=12, after=0):
        self.covers[name] = (fn, within)
        self.cover_after[name] = after

    def bounded(self, name, fn):
        """clause checked only by bounded unrolling from reset (labelled bounded)"""
        self.bounded_[name] = fn

    def window(self, name, goal, depth):
        """goal(list of FrameViews 0..depth) must hold on every run of depth+1 consecutive frames that starts in ANY state
        satisfying the (separately proved) invariants -- an unbounded-time proof of a finite-window property"""
        self.windows[name] = (goal, depth)

    def response(self, name, trigger, goal, bound, stay=None):
        self.responses[name] = (trigger, goal, bound, stay)

    # -- frames
    def ghost_sort_const(self, g, tag):
        return z3.Bool("g_%s%s" % (g.name, tag)) if g.width == "bool" else z3.BitVec("g_%s%s" % (g.name, tag), g.width)

    def ghost_init(self, g):
        if g.init is None:
            return self.ghost_sort_const(g, "@init")     # arbitrary but fixed initial value
        if g.width == "bool":
            return z3.BoolVal(bool(g.init))
        if isinstance(g.init, int):
            return bvconst(g.init, g.width)
        return g.init

    def make_view(self, tag, regs="free", ghosts="free", opaque=False):
        if regs == "reset":
            reg_vals = {r: self.tr.reset_value(r) for r in self.tr.regs}
        elif regs == "free":
            reg_vals = None
        else:
            reg_vals = regs
        fr = Frame(self.tr, tag, reg_vals=reg_vals, opaque=opaque)
        if ghosts == "init":
            gv = {n: self.ghost_init(g) for n, g in self.ghosts.items()}
        elif ghosts == "free":
            gv = {n: self.ghost_sort_const(g, tag) for n, g in self.ghosts.items()}
        else:
            gv = ghosts
        if len(self.domains) > 1:
            ticks = {cd: z3.Bool("tick_%s%s" % (cd, tag)) for cd in self.domains}
        else:
            ticks = {cd: z3.BoolVal(True) for cd in self.domains}
        return FrameView(self, fr, gv, ticks)

    def next_state(self, view):
        nxt = {}
        for cd in self.tr.sync:
            n = view.frame.next_regs(cd)
            t = view.tick.get(cd)
            for r, v in n.items():
                if t is None or z3.is_true(t):
                    nxt[r] = v
                else:
                    nxt[r] = z3.If(t, v, view.frame.sigval(r))
        return nxt

    def next_ghosts(self, view):
        return {n: g.nxt(view) for n, g in self.ghosts.items()}

    def tick_constraint(self, view):
        if len(self.domains) <= 1:
            return z3.BoolVal(True)
        c = z3.Or(*[view.tick[cd] for cd in self.domains])
        if self.tick_assume is not None:
            c = z3.And(c, self.tick_assume(view))
        return c

    def all_assumes(self, view):
        return [fn(view) for fn in self.assumes.values()] + [self.tick_constraint(view)]

    def all_invs(self, view):
        return [fn(view) for fn in self.invariants.values()]


def _as_bool(x):
    if isinstance(x, bool):
        return z3.BoolVal(x)
    return x


class Unroller:
    """frames 0..n linked by the transition relation; frame registers/ghosts are named constants so that a model can be
    read back per frame."""

    def __init__(self, c, init):
        self.c = c
        self.views = []
        self.constraints = []
        if init == "reset":
            v = c.make_view("@0", regs="reset", ghosts="init")
        else:
            v = c.make_view("@0", regs="free", ghosts="free")
        self.views.append(v)

    def extend(self):
        c = self.c
        prev = self.views[-1]
        k = len(self.views)
        tag = "@%d" % k
        nxt = c.next_state(prev)
        ng = c.next_ghosts(prev)
        regs = {}
        for r in c.tr.reg_list:
            cst = z3.BitVec("%s%s" % (signame(r), tag), r.nbits)
            regs[r] = cst
            if r in getattr(c, "havoc", ()):
                continue            # sound over-approximation: next value of this register left unconstrained
            self.constraints.append(cst == nxt[r])
        gh = {}
        for n, g in c.ghosts.items():
            cst = c.ghost_sort_const(g, tag)
            gh[n] = cst
            self.constraints.append(cst == ng[n])
        v = c.make_view(tag, regs=regs, ghosts=gh)
        self.views.append(v)
        return v

    def model_trace(self, m, upto=None):
        """per-frame input values (by free_list index), ticks, registers, ghosts from a model"""
        c = self.c
        trace = []
        views = self.views if upto is None else self.views[:upto + 1]
        for v in views:
            ins = {}
            for i, s in enumerate(c.free_list):
                t = v.frame.in_vals.get(s)
                val = 0 if t is None else _mval(m, t)
                ins["%d:%s" % (i, signame_nodu(s))] = val
            ticks = {cd: (True if z3.is_true(t) else bool(_mbool(m, t))) for cd, t in v.tick.items()}
            regs = {}
            for r in c.tr.reg_list:
                t = v.frame.reg_vals.get(r)
                if t is not None:
                    regs[signame(r)] = _mval(m, t)
            gh = {n: _mghost(m, t) for n, t in v.g._d.items()}
            trace.append({"inputs": ins, "ticks": ticks, "regs": regs, "ghosts": gh})
        rigid = {n: _mghost(m, t) for n, t in c.rigid_consts.items()}
        ginit = {}
        for n, g in c.ghosts.items():
            if g.init is None:
                ginit[n] = _mghost(m, c.ghost_init(g))
        return {"frames": trace, "rigid": rigid, "ghost_init": ginit}


def signame_nodu(sig):
    nm = sig.name_override
    if nm is None:
        nm = sig.backtrace[-1][0] if sig.backtrace else "s"
    return nm


def _mval(m, t):
    v = m.eval(t, model_completion=True)
    return v.as_long()


def _mbool(m, t):
    return z3.is_true(m.eval(t, model_completion=True))


def _mghost(m, t):
    v = m.eval(t, model_completion=True)
    if z3.is_bool(v):
        return bool(z3.is_true(v))
    return v.as_long()


def mk_solver(timeout_ms=None):
    s = z3.SolverFor("QF_BV") if False else z3.Solver()
    s.set("timeout", int(timeout_ms or TIMEOUT_MS))
    return s


class Result(dict):
    pass


def _res(oid, kind, status, secs, **kw):
    r = Result(id=oid, kind=kind, status=status, seconds=round(secs, 3), backend="z3-%s" % z3.get_version_string())
    r.update(kw)
    return r


def _check(solver, *assumptions):
    t = time.time()
    r = solver.check(*assumptions)
    return r, time.time() - t


# ---------------------------------------------------------------------------------------------------------------------
# obligation drivers
# ---------------------------------------------------------------------------------------------------------------------

def prove_inductive(c, prefix, timeout_ms=None, want_trace_depth=0):
    """init/<inv>, step/<inv>, post/<ens> for contract c.  Returns list of Result."""
    out = []
    k = c.k
    # ---- init: invariants hold on the first k frames from reset
    u = Unroller(c, "reset")
    for _ in range(k - 1):
        u.extend()
    s = mk_solver(timeout_ms)
    for v in u.views:
        for a in c.all_assumes(v):
            s.add(a)
    for x in u.constraints:
        s.add(x)
    for name, fn in c.invariants.items():
        goal = z3.And(*[_as_bool(fn(v)) for v in u.views])
        r, secs = _check(s, z3.Not(goal))
        oid = "%s/init/%s" % (prefix, name)
        if r == z3.unsat:
            out.append(_res(oid, "init", "proved", secs))
        elif r == z3.sat:
            out.append(_res(oid, "init", "failed", secs, trace=u.model_trace(s.model()), from_reset=True))
        else:
            out.append(_res(oid, "init", "unknown", secs, reason=s.reason_unknown()))
    # ---- step
    u = Unroller(c, "free")
    for _ in range(k):
        u.extend()
    s = mk_solver(timeout_ms)
    for x in u.constraints:
        s.add(x)
    for v in u.views:
        for a in c.all_assumes(v):
            s.add(a)
    for v in u.views[:-1]:
        for i in c.all_invs(v):
            s.add(i)
    last = u.views[-1]
    for name, fn in c.invariants.items():
        r, secs = _check(s, z3.Not(_as_bool(fn(last))))
        oid = "%s/step/%s" % (prefix, name)
        if r == z3.unsat:
            out.append(_res(oid, "step", "proved", secs, k=k))
        elif r == z3.sat:
            out.append(_res(oid, "step", "failed", secs, k=k, trace=u.model_trace(s.model()), from_reset=False))
        else:
            out.append(_res(oid, "step", "unknown", secs, reason=s.reason_unknown()))
    # ---- post
    if c.ensures_:
        v = c.make_view("@0", regs="free", ghosts="free")
        s = mk_solver(timeout_ms)
        for a in c.all_assumes(v):
            s.add(a)
        for i in c.all_invs(v):
            s.add(i)
        for name, fn in c.ensures_.items():
            r, secs = _check(s, z3.Not(_as_bool(fn(v))))
            oid = "%s/post/%s" % (prefix, name)
            kind = "post" if c.tr.regs or c.ghosts else "comb"
            if r == z3.unsat:
                out.append(_res(oid, kind, "proved", secs))
            elif r == z3.sat:
                uu = _SingleView(c, v)
                out.append(_res(oid, kind, "failed", secs, trace=uu.model_trace(s.model()),
                                from_reset=not (c.tr.regs or c.ghosts)))
            else:
                out.append(_res(oid, kind, "unknown", secs, reason=s.reason_unknown()))
    return out


class _SingleView(Unroller):
    def __init__(self, c, v):
        self.c = c
        self.views = [v]
        self.constraints = []


def run_bounded_oneshot(c, prefix, depth, clauses=None, timeout_ms=None, include_ensures=True, kind="bounded"):
    """like run_bounded, but one query per clause over the whole unrolling (violated at some frame 0..depth)"""
    out = []
    cl = collections.OrderedDict()
    if include_ensures:
        cl.update(c.ensures_)
        cl.update(c.invariants)
    cl.update(c.bounded_)
    if clauses is not None:
        cl = collections.OrderedDict((n, cl[n]) for n in clauses)
    u = Unroller(c, "reset")
    for _ in range(depth):
        u.extend()
    s = mk_solver(timeout_ms)
    for x in u.constraints:
        s.add(x)
    for v in u.views:
        for a in c.all_assumes(v):
            s.add(a)
    for n, fn in cl.items():
        bad = z3.Or(*[z3.Not(_as_bool(fn(v))) for v in u.views])
        r, secs = _check(s, bad)
        oid = "%s/%s/%s@%d" % (prefix, kind, n, depth)
        if r == z3.unsat:
            out.append(_res(oid, kind, "bounded-ok", secs, depth=depth))
        elif r == z3.sat:
            m = s.model()
            at = next((t for t, v in enumerate(u.views) if z3.is_false(m.eval(_as_bool(fn(v)), model_completion=True))), None)
            out.append(_res(oid, kind, "failed", secs, depth=depth, at=at,
                            trace=u.model_trace(m, upto=at if at is not None else None), from_reset=True))
        else:
            out.append(_res(oid, kind, "unknown", secs, depth=depth, reason=s.reason_unknown()))
    return out


def run_bounded(c, prefix, depth, clauses=None, timeout_ms=None, include_ensures=True, kind="bounded"):
    """clauses hold on frames 0..depth from reset under the assumptions (labelled bounded)."""
    out = []
    cl = collections.OrderedDict()
    if include_ensures:
        cl.update(c.ensures_)
        cl.update(c.invariants)
    cl.update(c.bounded_)
    if clauses is not None:
        cl = collections.OrderedDict((n, cl[n]) for n in clauses)
    u = Unroller(c, "reset")
    s = mk_solver(timeout_ms)
    pending = collections.OrderedDict(cl)
    spent = {n: 0.0 for n in cl}
    status = {}
    for t in range(depth + 1):
        v = u.views[-1]
        for a in c.all_assumes(v):
            s.add(a)
        for n in list(pending):
            r, secs = _check(s, z3.Not(_as_bool(pending[n](v))))
            spent[n] += secs
            oid = "%s/%s/%s@%d" % (prefix, kind, n, depth)
            if r == z3.sat:
                status[n] = _res(oid, kind, "failed", spent[n], depth=depth, at=t,
                                 trace=u.model_trace(s.model()), from_reset=True)
                del pending[n]
            elif r != z3.unsat:
                status[n] = _res(oid, kind, "unknown", spent[n], depth=depth, at=t, reason=s.reason_unknown())
                del pending[n]
        if not pending:
            break
        if t < depth:
            n0 = len(u.constraints)
            u.extend()
            for x in u.constraints[n0:]:
                s.add(x)
    for n in cl:
        if n in status:
            out.append(status[n])
        else:
            out.append(_res("%s/%s/%s@%d" % (prefix, kind, n, depth), kind, "bounded-ok", spent[n], depth=depth))
    return out


def run_covers(c, prefix, timeout_ms=None, only=None):
    """each cover is reachable from reset within its depth under the assumptions (vacuity guard)."""
    out = []
    if not c.covers:
        return out
    pending = {n: v for n, v in c.covers.items() if only is None or n in only}
    if not pending:
        return out
    maxd = max(d for _, d in pending.values())
    u = Unroller(c, "reset")
    s = mk_solver(timeout_ms)
    spent = {n: 0.0 for n in pending}
    for t in range(maxd + 1):
        v = u.views[-1]
        for a in c.all_assumes(v):
            s.add(a)
        for n in list(pending):
            fn, d = pending[n]
            if t < c.cover_after.get(n, 0):
                continue
            r, secs = _check(s, _as_bool(fn(v)))
            spent[n] += secs
            if r == z3.sat:
                out.append(_res("%s/cover/%s" % (prefix, n), "cover", "covered", spent[n], at=t))
                del pending[n]
            elif r != z3.unsat:
                out.append(_res("%s/cover/%s" % (prefix, n), "cover", "unknown", spent[n], reason=s.reason_unknown()))
                del pending[n]
            elif t >= d:
                out.append(_res("%s/cover/%s" % (prefix, n), "cover", "vacuous", spent[n], depth=d))
                del pending[n]
        if not pending:
            break
        n0 = len(u.constraints)
        u.extend()
        for x in u.constraints[n0:]:
            s.add(x)
    return out


def run_covers_native(c, prefix, names, cycles, seed=0, tries=4, zero_first=True):
    """existential covers witnessed on the real module by native simulation (all-zero inputs first, then random)"""
    import random as _r
    out = []
    remaining = list(names)
    t0 = time.time()
    for attempt in range(tries):
        if not remaining:
            break
        rnd = _r.Random(seed * 97 + attempt)
        frames = []
        for t in range(cycles):
            ins = {}
            for i, s_ in enumerate(c.free_list):
                if attempt == 0 and zero_first:
                    v = 0
                elif attempt == 1 and s_.nbits == 1:
                    v = 1
                elif s_.nbits == 1:
                    v = 1 if rnd.random() < (0.5 if attempt == 2 else 0.15) else 0
                else:
                    v = rnd.getrandbits(s_.nbits) if rnd.random() < 0.5 else rnd.getrandbits(2) & ((1 << s_.nbits) - 1)
                ins["%d:%s" % (i, signame_nodu(s_))] = v
            frames.append({"inputs": ins, "ticks": {cd: True for cd in c.domains}})
        clauses = {n: (lambda f, fn=c.covers[n][0]: z3.Not(_as_bool(fn(f)))) for n in remaining}
        rr = replay_native(c, {"frames": frames}, clauses)
        if rr["assume_fail"] is not None and rr["assume_fail"][1] == 0:
            continue
        lim = rr["assume_fail"][1] if rr["assume_fail"] is not None else cycles
        for n in list(remaining):
            ff = rr["first_fail"][n]
            if isinstance(ff, int) and ff < lim:
                out.append(_res("%s/cover/%s" % (prefix, n), "cover", "covered", time.time() - t0, at=ff,
                                backend="native-simulation(migen)"))
                remaining.remove(n)
    return out, remaining


def run_responses(c, prefix, timeout_ms=None, from_reset=False):
    """resp/<name><=B: from ANY state satisfying the invariants (proved inductive separately), if trigger holds at frame 0
    (and `stay` holds on every frame) then goal holds at some frame 0..B.  Unbounded-time when the invariants are proved."""
    out = []
    for name, (trigger, goal, bound, stay) in c.responses.items():
        u = Unroller(c, "reset" if from_reset else "free")
        for _ in range(bound):
            u.extend()
        s = mk_solver(timeout_ms)
        for x in u.constraints:
            s.add(x)
        for v in u.views:
            for a in c.all_assumes(v):
                s.add(a)
            if not from_reset:
                for i in c.all_invs(v):
                    s.add(i)
            if stay is not None:
                s.add(_as_bool(stay(v)))
            s.add(z3.Not(_as_bool(goal(v))))
        s.add(_as_bool(trigger(u.views[0])))
        r, secs = _check(s)
        oid = "%s/resp/%s<=%d" % (prefix, name, bound)
        if r == z3.unsat:
            out.append(_res(oid, "resp", "proved", secs, bound=bound))
        elif r == z3.sat:
            out.append(_res(oid, "resp", "failed", secs, bound=bound, trace=u.model_trace(s.model()),
                            from_reset=from_reset))
        else:
            out.append(_res(oid, "resp", "unknown", secs, reason=s.reason_unknown()))
    return out


def run_windows(c, prefix, timeout_ms=None):
    out = []
    by_depth = {}
    for name, (goal, depth) in c.windows.items():
        by_depth.setdefault(depth, []).append((name, goal))
    for depth, items in sorted(by_depth.items()):
        u = Unroller(c, "free")
        for _ in range(depth):
            u.extend()
        s = mk_solver(timeout_ms)
        for x in u.constraints:
            s.add(x)
        for v in u.views:
            for a in c.all_assumes(v):
                s.add(a)
            for i in c.all_invs(v):
                s.add(i)
        for name, goal in items:
            r, secs = _check(s, z3.Not(_as_bool(goal(u.views))))
            oid = "%s/resp/%s<=%d" % (prefix, name, depth)
            if r == z3.unsat:
                out.append(_res(oid, "resp", "proved", secs, bound=depth))
            elif r == z3.sat:
                out.append(_res(oid, "resp", "failed", secs, bound=depth, trace=u.model_trace(s.model()), from_reset=False))
            else:
                out.append(_res(oid, "resp", "unknown", secs, reason=s.reason_unknown()))
    return out


def find_window_from_reset(c, goal, wdepth, depth, timeout_ms=None):
    """bounded search from reset for a run whose last wdepth+1 frames violate a window goal (timeout_ms = total budget)"""
    u = Unroller(c, "reset")
    s = mk_solver(timeout_ms)
    t_end = time.time() + (timeout_ms or TIMEOUT_MS) / 1000.0
    for a in c.all_assumes(u.views[-1]):
        s.add(a)
    for t in range(1, depth + 1):
        n0 = len(u.constraints)
        v = u.extend()
        for x in u.constraints[n0:]:
            s.add(x)
        for a in c.all_assumes(v):
            s.add(a)
        if t >= wdepth:
            if time.time() > t_end:
                break
            s.set("timeout", max(1000, int((t_end - time.time()) * 1000)))
            r, _ = _check(s, z3.Not(_as_bool(goal(u.views[t - wdepth:t + 1]))))
            if r == z3.sat:
                return u.model_trace(s.model()), t - wdepth
    return None, None


def find_trace_from_reset(c, bad_fn, depth, timeout_ms=None):
    """bounded search for a trace from reset reaching bad_fn(view); returns trace dict or None (timeout_ms = total)"""
    u = Unroller(c, "reset")
    s = mk_solver(timeout_ms)
    t_end = time.time() + (timeout_ms or TIMEOUT_MS) / 1000.0
    for t in range(depth + 1):
        v = u.views[-1]
        for a in c.all_assumes(v):
            s.add(a)
        if time.time() > t_end:
            break
        s.set("timeout", max(1000, int((t_end - time.time()) * 1000)))
        r, _ = _check(s, _as_bool(bad_fn(v)))
        if r == z3.sat:
            return u.model_trace(s.model())
        if t < depth:
            n0 = len(u.constraints)
            u.extend()
            for x in u.constraints[n0:]:
                s.add(x)
    return None


# ---------------------------------------------------------------------------------------------------------------------
# native simulation (Migen's own Evaluator on the real elaborated module)
# ---------------------------------------------------------------------------------------------------------------------

class NativeSim:
    def __init__(self, contract):
        from migen.sim.core import Simulator
        self.c = contract
        # the contract's fragment has already been lowered by elaborate(); Simulator re-applies the (now no-op) passes
        clocks = {cd: 10 for cd in contract.domains}
        self.sim = Simulator(contract.frag, [], clocks=clocks)
        self.ev = self.sim.evaluator
        self.frag = self.sim.fragment
        self.ev.execute(self.frag.comb)
        self.sim._commit_and_comb_propagate()

    def set_inputs(self, values):
        for sig, v in values.items():
            self.ev.assign(sig, v)
        self.sim._commit_and_comb_propagate()

    def get(self, sig):
        v = self.ev.signal_values.get(sig)
        if v is None:
            v = sig.reset.value
        return v & ((1 << sig.nbits) - 1)

    def step(self, ticks=None, next_inputs=None):
        for cd in self.c.domains:
            if ticks is None or ticks.get(cd, True):
                if cd in self.frag.sync:
                    self.ev.execute(self.frag.sync[cd])
        if next_inputs:
            for sig, v in next_inputs.items():
                self.ev.assign(sig, v)
        self.sim._commit_and_comb_propagate()


def difftest(c, ncycles=200, seed=0, bias=None):
    """random simulation in Migen vs the z3 model: every register's next value and every comb signal must agree.
    Returns (cycles, comparisons, mismatches list)."""
    rnd = random.Random(seed)
    sim = NativeSim(c)
    tr = c.tr
    regs = tr.reg_list
    combs = sorted(tr.comb_targets, key=lambda s: s.duid)
    fr = Frame(tr, "")
    nxt = {}
    for cd in tr.sync:
        nxt.update(fr.next_regs(cd))
    combv = {s: fr.sigval(s) for s in combs}
    for r in regs:
        fr.sigval(r)
    mism = []
    ncmp = 0

    def rand_inputs():
        d = {}
        for s in c.free_list:
            mode = rnd.random()
            if bias and s in bias:
                d[s] = bias[s](rnd)
            elif s.nbits == 1:
                d[s] = rnd.getrandbits(1)
            elif mode < 0.15:
                d[s] = 0
            elif mode < 0.3:
                d[s] = rnd.getrandbits(2) & ((1 << s.nbits) - 1)
            else:
                d[s] = rnd.getrandbits(s.nbits)
        return d

    inp = rand_inputs()
    sim.set_inputs(inp)
    # one concatenated term for all outputs: a single substitute+simplify per cycle
    outs = [(("comb", s_), combv[s_]) for s_ in combs] + [(("reg", r), nxt[r]) for r in regs]
    big = z3.Concat(*[t for _, t in reversed(outs)]) if len(outs) > 1 else outs[0][1]
    for k in range(ncycles):
        subs = []
        for r in regs:
            subs.append((fr.reg_vals[r], bvconst(sim.get(r), r.nbits)))
        for s_, t in fr.in_vals.items():
            subs.append((t, bvconst(sim.get(s_), s_.nbits)))
        val = z3.simplify(z3.substitute(big, *subs))
        if not z3.is_bv_value(val):
            mism.append(("eval", "non-constant", k, str(val)[:60], None))
            break
        val = val.as_long()
        got = {}
        off = 0
        for key, t in outs:
            n_ = t.size()
            got[key] = (val >> off) & ((1 << n_) - 1)
            off += n_
        for s_ in combs:
            ncmp += 1
            if got[("comb", s_)] != sim.get(s_):
                mism.append(("comb", signame(s_), k, got[("comb", s_)], sim.get(s_)))
        ticks = {cd: True for cd in c.domains}
        if len(c.domains) > 1:
            ticks = {cd: rnd.random() < 0.6 for cd in c.domains}
            if not any(ticks.values()):
                ticks[rnd.choice(c.domains)] = True
        pred = {}
        for r in regs:
            pred[r] = got[("reg", r)] if ticks[tr.reg_domain[r]] else sim.get(r)
        inp = rand_inputs()
        sim.step(ticks, inp)
        for r in regs:
            ncmp += 1
            if pred[r] != sim.get(r):
                mism.append(("reg", signame(r), k, pred[r], sim.get(r)))
        if len(mism) > 20:
            break
    return ncycles, ncmp, mism


class _SigVals(dict):
    """signal values of one simulated cycle; a signal that is not part of the design keeps its reset value"""
    def __init__(self, sim, sigs):
        dict.__init__(self, {s: sim.get(s) for s in sigs})

    def __missing__(self, sig):
        return sig.reset.value & ((1 << sig.nbits) - 1)


def replay_native(c, trace, clauses, kinds=None):
    """Drive the real module (Migen simulator) with the inputs of a solver trace; evaluate ghosts, assumptions and the
    named clauses on the simulator's signal values.  Returns dict with per-clause first failing cycle (or None), and
    whether every assumption held."""
    frames = trace["frames"]
    sim = NativeSim(c)
    n = len(frames)
    # opaque views (cur, next): all signals are constants that we substitute with simulator values
    nxt_view = FrameView(c, Frame(c.tr, "@n", opaque=True), {}, {})
    gconsts = {nm: c.ghost_sort_const(g, "@c") for nm, g in c.ghosts.items()}
    ticks_c = {cd: z3.Bool("tick_%s@c" % cd) for cd in c.domains}
    cur = FrameView(c, Frame(c.tr, "@c", opaque=True), gconsts, ticks_c, nxt_view=nxt_view)
    cl_exprs = {nm: _as_bool(fn(cur)) for nm, fn in clauses.items()}
    as_exprs = {nm: _as_bool(fn(cur)) for nm, fn in c.assumes.items()}
    gh_next = {nm: g.nxt(cur) for nm, g in c.ghosts.items()}
    rigid_subs = []
    for nm, t in c.rigid_consts.items():
        val = trace.get("rigid", {}).get(nm, 0)
        rigid_subs.append((t, z3.BoolVal(bool(val)) if z3.is_bool(t) else bvconst(val, t.size())))
    gvals = {}
    for nm, g in c.ghosts.items():
        if g.init is None:
            val = trace.get("ghost_init", {}).get(nm, 0)
            gvals[nm] = z3.BoolVal(bool(val)) if g.width == "bool" else bvconst(val, g.width)
        else:
            gvals[nm] = z3.simplify(z3.substitute(c.ghost_init(g), *rigid_subs)) if rigid_subs else c.ghost_init(g)

    def inputs_of(fr):
        d = {}
        for key, val in fr["inputs"].items():
            idx = int(key.split(":")[0])
            d[c.free_list[idx]] = val
        return d

    # record signal values per cycle
    vals = []
    sim.set_inputs(inputs_of(frames[0]))
    allsigs = sorted(set(c.tr.allsigs) | set(c.free_list), key=lambda s: s.duid)
    for t in range(n):
        vals.append(_SigVals(sim, allsigs))
        ticks = frames[t].get("ticks")
        sim.step(ticks, inputs_of(frames[t + 1]) if t + 1 < n else None)
    vals.append(_SigVals(sim, allsigs))
    first_fail = {nm: None for nm in clauses}
    assume_fail = None
    ghost_log = []
    for t in range(n):
        subs = list(rigid_subs)
        for s_, cst in cur.frame.opaque_vals.items():
            subs.append((cst, bvconst(vals[t][s_], s_.nbits)))
        for s_, cst in nxt_view.frame.opaque_vals.items():
            subs.append((cst, bvconst(vals[t + 1][s_], s_.nbits)))
        for nm, cst in gconsts.items():
            subs.append((cst, gvals[nm]))
        for cd, cst in ticks_c.items():
            subs.append((cst, z3.BoolVal(bool(frames[t].get("ticks", {}).get(cd, True)))))
        ghost_log.append({nm: str(v) for nm, v in gvals.items()})
        for nm, e in as_exprs.items():
            r = z3.simplify(z3.substitute(e, *subs))
            if not z3.is_true(r) and assume_fail is None:
                assume_fail = (nm, t, str(r)[:80])
        for nm, e in cl_exprs.items():
            r = z3.simplify(z3.substitute(e, *subs))
            if z3.is_false(r) and first_fail[nm] is None:
                first_fail[nm] = t
            elif not z3.is_true(r) and not z3.is_false(r) and first_fail[nm] is None:
                first_fail[nm] = ("undetermined", t, str(r)[:80])
        gvals = {nm: z3.simplify(z3.substitute(e, *subs)) for nm, e in gh_next.items()}
    return {"first_fail": first_fail, "assume_fail": assume_fail, "cycles": n}


def replay_window_native(c, trace, goal, wdepth, start):
    """evaluate a window goal on frames start..start+wdepth of a native simulation driven by the trace's inputs.
    Ghosts are advanced natively from reset.  Returns dict(violated=bool, assume_fail=...)"""
    frames = trace["frames"]
    n = len(frames)
    sim = NativeSim(c)

    def inputs_of(fr):
        d = {}
        for key, val in fr["inputs"].items():
            d[c.free_list[int(key.split(":")[0])]] = val
        return d
    allsigs = sorted(set(c.tr.allsigs) | set(c.free_list), key=lambda s: s.duid)
    vals = []
    sim.set_inputs(inputs_of(frames[0]))
    for t in range(n):
        vals.append(_SigVals(sim, allsigs))
        sim.step(frames[t].get("ticks"), inputs_of(frames[t + 1]) if t + 1 < n else None)
    vals.append(_SigVals(sim, allsigs))
    # ghosts natively
    nxt_view = FrameView(c, Frame(c.tr, "@n", opaque=True), {}, {})
    gconsts = {nm: c.ghost_sort_const(g, "@c") for nm, g in c.ghosts.items()}
    ticks_c = {cd: z3.Bool("tick_%s@c" % cd) for cd in c.domains}
    cur = FrameView(c, Frame(c.tr, "@c", opaque=True), gconsts, ticks_c, nxt_view=nxt_view)
    gh_next = {nm: g.nxt(cur) for nm, g in c.ghosts.items()}
    as_exprs = {nm: _as_bool(fn(cur)) for nm, fn in c.assumes.items()}
    rigid_subs = []
    for nm, t_ in c.rigid_consts.items():
        val = trace.get("rigid", {}).get(nm, 0)
        rigid_subs.append((t_, z3.BoolVal(bool(val)) if z3.is_bool(t_) else bvconst(val, t_.size())))
    gvals = {}
    for nm, g in c.ghosts.items():
        if g.init is None:
            val = trace.get("ghost_init", {}).get(nm, 0)
            gvals[nm] = z3.BoolVal(bool(val)) if g.width == "bool" else bvconst(val, g.width)
        else:
            gvals[nm] = c.ghost_init(g)
    ghist = []
    assume_fail = None
    for t in range(n):
        ghist.append(dict(gvals))
        subs = list(rigid_subs)
        for s_, cst in cur.frame.opaque_vals.items():
            subs.append((cst, bvconst(vals[t][s_], s_.nbits)))
        for s_, cst in nxt_view.frame.opaque_vals.items():
            subs.append((cst, bvconst(vals[t + 1][s_], s_.nbits)))
        for nm, cst in gconsts.items():
            subs.append((cst, gvals[nm]))
        for cd, cst in ticks_c.items():
            subs.append((cst, z3.BoolVal(bool(frames[t].get("ticks", {}).get(cd, True)))))
        for nm, e in as_exprs.items():
            r = z3.simplify(z3.substitute(e, *subs))
            if not z3.is_true(r) and assume_fail is None:
                assume_fail = (nm, t, str(r)[:80])
        gvals = {nm: z3.simplify(z3.substitute(e, *subs)) for nm, e in gh_next.items()}
    # window views
    wviews = []
    subs = list(rigid_subs)
    for j in range(wdepth + 1):
        t = start + j
        gc = {nm: c.ghost_sort_const(g, "@w%d" % j) for nm, g in c.ghosts.items()}
        v = FrameView(c, Frame(c.tr, "@w%d" % j, opaque=True), gc, {cd: z3.BoolVal(True) for cd in c.domains})
        wviews.append((v, t, gc))
    for j in range(wdepth):
        wviews[j][0].nxt_view = wviews[j + 1][0]
    e = _as_bool(goal([v for v, _, _ in wviews]))
    for v, t, gc in wviews:
        for s_, cst in v.frame.opaque_vals.items():
            subs.append((cst, bvconst(vals[t][s_], s_.nbits)))
        for nm, cst in gc.items():
            subs.append((cst, ghist[t][nm]))
    r = z3.simplify(z3.substitute(e, *subs))
    return {"violated": z3.is_false(r), "undetermined": not (z3.is_true(r) or z3.is_false(r)), "assume_fail": assume_fail}


def boot_prefix(make_contract, regs_of, idle_fn, max_steps=2000):
    """Deterministic start-up prefix: simulate a fresh instance natively from reset (all inputs 0) until idle_fn(sim, c) holds;
    returns the list of per-cycle value tuples of regs_of(c) (index-aligned with regs_of of any other instance)."""
    c = make_contract()
    sim = NativeSim(c)
    sim.set_inputs({s: 0 for s in c.free_list})
    regs = regs_of(c)
    seq = []
    for t in range(max_steps):
        seq.append(tuple(sim.get(r) for r in regs))
        if idle_fn(sim, c):
            return seq
        sim.step(None, {s: 0 for s in c.free_list})
    raise RuntimeError("start-up prefix did not end within %d cycles" % max_steps)
