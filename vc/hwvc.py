"""HWVC core: Migen FHDL (as elaborated by the *real* LiteDRAM constructors) -> z3 bit-vector transition relation.

The semantics implemented here are those of migen.sim.core.Evaluator (the Migen simulator):
  * arithmetic is exact on integers (operand widths / signedness from value_bits_sign), truncation happens at assignment;
  * sync statements: right-hand sides and If/Case conditions read the pre-state; slice / Cat / Array targets
    read-modify-write the value being built;
  * a combinational signal is the in-order execution of the statements that can assign it, starting from its reset value;
  * undriven signals that are not declared free inputs are the constant reset value.
Every run cross-checks this translation against the Migen simulator (engine.difftest).
"""
import collections
import z3
from migen.fhdl.structure import (_Value, _Statement, _Operator, _Slice, _Part, _ArrayProxy, _Assign, _Fragment,
                                  Constant, Cat, Replicate, If, Case, Signal, ClockSignal, ResetSignal, Display,
                                  ClockDomain)
from migen.fhdl.bitcontainer import value_bits_sign
from migen.fhdl.tools import list_targets as _list_targets, list_signals, lower_specials
from migen.fhdl.simplify import MemoryToArray


class ExtractionError(Exception):
    pass


def elaborate(module):
    """get_fragment() + the lowering passes the Migen simulator applies (MemoryToArray, lower_specials).
    No insert_resets: registers start from their reset value; clock-domain reset inputs are tied inactive."""
    frag = module if isinstance(module, _Fragment) else module.get_fragment()
    mta = MemoryToArray()
    mta.transform_fragment(None, frag)
    from migen.genlib.resetsync import AsyncResetSynchronizer
    from migen.sim.core import DummyAsyncResetSynchronizer
    lower_specials({AsyncResetSynchronizer: DummyAsyncResetSynchronizer}, frag)
    if frag.specials:
        raise ExtractionError("unsupported specials: %r" % (frag.specials,))
    frag._mem_replacements = mta.replacements
    return frag


class V:
    """z3 bit-vector + signedness"""
    __slots__ = ("bv", "signed")

    def __init__(self, bv, signed):
        self.bv = bv
        self.signed = signed

    @property
    def n(self):
        return self.bv.size()


def ext(v, n):
    """resize V to n bits preserving the integer value (truncate if narrower)"""
    k = v.bv.size()
    if k == n:
        return v.bv
    if k > n:
        return z3.Extract(n - 1, 0, v.bv)
    return z3.SignExt(n - k, v.bv) if v.signed else z3.ZeroExt(n - k, v.bv)


def bvconst(value, n):
    return z3.BitVecVal(value & ((1 << n) - 1), n)


def signame(sig):
    nm = sig.name_override
    if nm is None:
        nm = sig.backtrace[-1][0] if sig.backtrace else "s"
    return "%s_%d" % (nm, sig.duid)


class Translator:
    def __init__(self, frag, free=None):
        self.frag = frag
        self._tcache = {}
        self.comb = list(self._flatten(frag.comb))
        self.sync = {cd: list(self._flatten(st)) for cd, st in frag.sync.items()}
        self.comb_targets = set()
        for s in self.comb:
            self.comb_targets |= self.targets(s)
        self.sync_targets = {}
        self.regs = set()
        self.reg_domain = {}
        for cd, st in self.sync.items():
            t = set()
            for s in st:
                t |= self.targets(s)
            self.sync_targets[cd] = t
            for r in t:
                if r in self.reg_domain and self.reg_domain[r] != cd:
                    raise ExtractionError("register driven from two clock domains: %s" % signame(r))
                self.reg_domain[r] = cd
            self.regs |= t
        both = self.regs & self.comb_targets
        if both:
            raise ExtractionError("signals driven both comb and sync: %s" % [signame(s) for s in both])
        self.stmts_for = collections.defaultdict(list)
        for s in self.comb:
            for t in self.targets(s):
                self.stmts_for[t].append(s)
        self.allsigs = list_signals(frag)
        self.undriven = self.allsigs - self.regs - self.comb_targets
        self.free = set(free) if free is not None else set(self.undriven)
        self.reg_list = sorted(self.regs, key=lambda s: s.duid)

    def _flatten(self, stmts):
        for s in stmts:
            if isinstance(s, (list, tuple)):
                yield from self._flatten(s)
            else:
                yield s

    def targets(self, node):
        k = id(node)
        r = self._tcache.get(k)
        if r is None:
            r = (node, frozenset(_list_targets(node)))
            self._tcache[k] = r
        return r[1]

    def lhs_targets(self, lhs):
        if isinstance(lhs, Signal):
            return frozenset([lhs])
        k = ("lhs", id(lhs))
        r = self._tcache.get(k)
        if r is None:
            if isinstance(lhs, (_Slice, _Part)):
                t = self.lhs_targets(lhs.value)
            elif isinstance(lhs, Cat):
                t = frozenset().union(*[self.lhs_targets(e) for e in lhs.l])
            elif isinstance(lhs, _ArrayProxy):
                t = frozenset().union(*[self.lhs_targets(e) for e in lhs.choices])
            else:
                raise ExtractionError("unsupported assignment target %r" % type(lhs))
            r = (lhs, t)
            self._tcache[k] = r
        return r[1]

    def reset_value(self, sig):
        return bvconst(sig.reset.value, sig.nbits)


class Frame:
    """One time frame.  regs/inputs are z3 terms; comb signals are computed lazily.
    opaque=True: every signal (comb targets too) is a free constant -- used by the native replay, where all values
    come from the Migen simulator."""

    def __init__(self, tr, tag, reg_vals=None, in_vals=None, opaque=False):
        self.tr = tr
        self.tag = tag
        self.env = {}
        self.in_progress = []
        self.reg_vals = dict(reg_vals) if reg_vals else {}
        self.in_vals = dict(in_vals) if in_vals else {}
        self.opaque = opaque
        self.opaque_vals = {}
        self._next = {}
        self._guess = {}
        self._guess_used = set()

    def const_for(self, sig):
        return z3.BitVec("%s%s" % (signame(sig), self.tag), sig.nbits)

    def sigval(self, sig):
        r = self.env.get(sig)
        if r is not None:
            return r
        tr = self.tr
        if self.opaque:
            bv = self.const_for(sig)
            self.opaque_vals[sig] = bv
        elif sig in tr.regs:
            bv = self.reg_vals.get(sig)
            if bv is None:
                bv = self.const_for(sig)
                self.reg_vals[sig] = bv
        elif sig in tr.comb_targets:
            if sig in self.in_progress:
                g = self._guess.get(sig)
                if g is not None:
                    self._guess_used.add(sig)
                    return g                 # bit-sliced self-reference: current approximation (see below)
                raise ExtractionError("combinational loop through %s: %s" % (
                    signame(sig), [signame(x) for x in self.in_progress]))
            self.in_progress.append(sig)
            local = {sig: tr.reset_value(sig)}
            try:
                self.exec_stmts(tr.stmts_for[sig], local, frozenset([sig]))
                bv = local[sig]
            except ExtractionError as e:
                if "combinational loop through %s:" % signame(sig) not in str(e) or len(self.in_progress) == 0 \
                        or self.in_progress[-1] is not sig:
                    self.in_progress.pop()
                    raise
                # A signal whose bits depend on lower bits of itself (bit-level acyclic): evaluate as the simulator
                # does, by iterating from the reset value; nbits+1 rounds reach the unique fixpoint.  The result is
                # cross-checked against the Migen simulator by difftest like everything else.
                bv = tr.reset_value(sig)
                for _round in range(sig.nbits + 1):
                    keys = set(self.env)
                    self._guess[sig] = bv
                    local = {sig: tr.reset_value(sig)}
                    self.exec_stmts(tr.stmts_for[sig], local, frozenset([sig]))
                    bv = z3.simplify(local[sig])
                    for k_ in set(self.env) - keys:
                        del self.env[k_]
                del self._guess[sig]
            self.in_progress.pop()
        else:
            bv = self.in_vals.get(sig)
            if bv is None:
                if sig in tr.free:
                    bv = self.const_for(sig)
                    self.in_vals[sig] = bv
                else:
                    bv = tr.reset_value(sig)
        self.env[sig] = bv
        return bv

    # -- expressions -------------------------------------------------------------------------------
    def ev(self, node, local=None):
        if isinstance(node, Constant):
            n = max(node.nbits, 1)
            return V(bvconst(node.value, n), node.signed)
        if isinstance(node, Signal):
            if local is not None and node in local:
                return V(local[node], node.signed)
            return V(self.sigval(node), node.signed)
        if isinstance(node, _Operator):
            return self.ev_op(node, local)
        if isinstance(node, _Slice):
            v = self.ev(node.value, local)
            if node.stop <= node.start:
                raise ExtractionError("empty slice")
            bv = ext(v, max(v.n, node.stop))
            return V(z3.Extract(node.stop - 1, node.start, bv), False)
        if isinstance(node, _Part):
            v = self.ev(node.value, local)
            off = self.ev(node.offset, local)
            w = max(v.n, off.n, node.width)
            sh = z3.LShR(ext(V(v.bv, False), w), ext(V(off.bv, False), w))
            return V(z3.Extract(node.width - 1, 0, sh), False)
        if isinstance(node, Cat):
            parts = []
            for e in node.l:
                n = len(e)
                if n == 0:
                    continue
                parts.append(ext(self.ev(e, local), n))
            if not parts:
                raise ExtractionError("empty Cat")
            if len(parts) == 1:
                return V(parts[0], False)
            return V(z3.Concat(*reversed(parts)), False)
        if isinstance(node, Replicate):
            n = len(node.v)
            bv = ext(self.ev(node.v, local), n)
            return V(z3.Concat(*([bv] * node.n)) if node.n > 1 else bv, False)
        if isinstance(node, _ArrayProxy):
            n, s = value_bits_sign(node)
            key = self.ev(node.key, local)
            choices = [ext(self.ev(c, local), n) for c in node.choices]
            r = choices[-1]
            for i in range(len(choices) - 2, -1, -1):
                if i < (1 << key.n):
                    r = z3.If(key.bv == bvconst(i, key.n), choices[i], r)
            return V(r, s)
        if isinstance(node, (ClockSignal, ResetSignal)):
            return V(z3.BitVecVal(0, 1), False)
        raise ExtractionError("unsupported expression node %r" % type(node))

    def ev_op(self, node, local):
        op = node.op
        n, s = value_bits_sign(node)
        ops = [self.ev(o, local) for o in node.operands]
        if op == "~":
            return V(~ext(ops[0], n), s)
        if op == "-" and len(ops) == 1:
            return V(-ext(ops[0], n), s)
        if op == "m":
            return V(z3.If(ops[0].bv != 0, ext(ops[1], n), ext(ops[2], n)), s)
        a, b = ops
        if op in ("+", "-", "*", "&", "|", "^"):
            x, y = ext(a, n), ext(b, n)
            if op == "+": r = x + y
            elif op == "-": r = x - y
            elif op == "*": r = x * y
            elif op == "&": r = x & y
            elif op == "|": r = x | y
            else: r = x ^ y
            return V(r, s)
        if op == "<<<":
            if b.signed:
                raise ExtractionError("signed shift amount")
            w = max(n, b.n)
            r = ext(a, w) << ext(V(b.bv, False), w)
            return V(z3.Extract(n - 1, 0, r) if w > n else r, s)
        if op == ">>>":
            if b.signed:
                raise ExtractionError("signed shift amount")
            w = max(a.n, b.n, n)
            x = ext(a, w)
            y = ext(V(b.bv, False), w)
            r = (x >> y) if a.signed else z3.LShR(x, y)
            return V(z3.Extract(n - 1, 0, r) if n < w else r, s)
        if op in ("<", "<=", "==", "!=", ">", ">="):
            w = max(a.n + (0 if a.signed else 1), b.n + (0 if b.signed else 1))
            x, y = ext(a, w), ext(b, w)
            if op == "<": c = x < y
            elif op == "<=": c = x <= y
            elif op == "==": c = x == y
            elif op == "!=": c = x != y
            elif op == ">": c = x > y
            else: c = x >= y
            return V(z3.If(c, z3.BitVecVal(1, 1), z3.BitVecVal(0, 1)), False)
        raise ExtractionError("unsupported operator %r" % op)

    # -- statements --------------------------------------------------------------------------------
    def _rel(self, node, only):
        return only is None or not self.tr.targets(node).isdisjoint(only)

    def exec_stmts(self, stmts, local, only=None, cond=None):
        for s in stmts:
            if isinstance(s, (list, tuple)):
                self.exec_stmts(s, local, only, cond)
            elif isinstance(s, _Assign):
                if not self._rel(s, only):
                    continue
                self.assign(s.l, self.ev(s.r), local, only, cond)
            elif isinstance(s, If):
                rel_t = any(self._rel(x, only) for x in s.t)
                rel_f = any(self._rel(x, only) for x in s.f)
                if not (rel_t or rel_f):
                    continue
                c = self.ev(s.cond).bv != 0
                lt = dict(local)
                lf = dict(local)
                if rel_t:
                    self.exec_stmts(s.t, lt, only, None)
                if rel_f:
                    self.exec_stmts(s.f, lf, only, None)
                for k in set(lt) | set(lf):
                    a = lt.get(k)
                    b = lf.get(k)
                    if a is local.get(k) and b is local.get(k):
                        continue
                    if a is None or b is None:
                        base = self.base_for(k, local)
                        a = base if a is None else a
                        b = base if b is None else b
                    self.merge(local, k, a if a.eq(b) else z3.If(c, a, b), cond)
            elif isinstance(s, Case):
                if not self._rel(s, only):
                    continue
                nbits, signed = value_bits_sign(s.test)
                t = ext(self.ev(s.test), nbits)
                results = []
                default = None
                for k, v in s.cases.items():
                    if isinstance(k, Constant):
                        if any(self._rel(x, only) for x in v):
                            l2 = dict(local)
                            self.exec_stmts(v, l2, only, None)
                        else:
                            l2 = None
                        results.append((k, l2))
                if "default" in s.cases:
                    dv = s.cases["default"]
                    if any(self._rel(x, only) for x in dv):
                        default = dict(local)
                        self.exec_stmts(dv, default, only, None)
                keys = set()
                for k, l2 in results:
                    if l2:
                        keys |= {x for x in l2 if l2[x] is not local.get(x)}
                if default:
                    keys |= {x for x in default if default[x] is not local.get(x)}
                for sig in keys:
                    base = self.base_for(sig, local)
                    r = default[sig] if (default and sig in default) else base
                    for k, l2 in reversed(results):
                        val = l2[sig] if (l2 and sig in l2) else base
                        r = z3.If(t == bvconst(k.value, nbits), val, r)
                    self.merge(local, sig, r, cond)
            elif isinstance(s, Display):
                pass
            else:
                raise ExtractionError("unsupported statement %r" % type(s))

    def base_for(self, sig, local):
        if sig in local:
            return local[sig]
        return self.sigval(sig)

    def merge(self, local, sig, new, cond):
        if cond is None:
            local[sig] = new
        else:
            local[sig] = z3.If(cond, new, self.base_for(sig, local))

    def assign(self, lhs, v, local, only, cond):
        if isinstance(lhs, Signal):
            if only is not None and lhs not in only:
                return
            self.merge(local, lhs, ext(v, lhs.nbits), cond)
        elif isinstance(lhs, Cat):
            off = 0
            tot = sum(len(e) for e in lhs.l)
            full = ext(v, tot)
            for e in lhs.l:
                n = len(e)
                if n:
                    self.assign(e, V(z3.Extract(off + n - 1, off, full), False), local, only, cond)
                off += n
        elif isinstance(lhs, _Slice):
            tgt = lhs.value
            if only is not None and self.tr.lhs_targets(lhs).isdisjoint(only):
                return
            n = len(tgt)
            cur = ext(self.ev_target(tgt, local), n)
            nv = ext(v, lhs.stop - lhs.start)
            parts = []
            if lhs.start > 0:
                parts.append(z3.Extract(lhs.start - 1, 0, cur))
            parts.append(nv)
            if lhs.stop < n:
                parts.append(z3.Extract(n - 1, lhs.stop, cur))
            full = z3.Concat(*reversed(parts)) if len(parts) > 1 else parts[0]
            self.assign(tgt, V(full, False), local, only, cond)
        elif isinstance(lhs, _ArrayProxy):
            key = self.ev(lhs.key)
            nch = len(lhs.choices)
            for i, ch in enumerate(lhs.choices):
                if i >= (1 << key.n):
                    break
                if i == nch - 1:
                    c = z3.UGE(key.bv, bvconst(i, key.n))
                else:
                    c = key.bv == bvconst(i, key.n)
                cc = c if cond is None else z3.And(cond, c)
                self.assign(ch, v, local, only, cc)
        else:
            raise ExtractionError("unsupported assignment target %r" % type(lhs))

    def ev_target(self, tgt, local):
        """value of an assignment target as built so far (read-modify-write of slices): the key of an array target
        reads the pre-state, the selected element reads `local`."""
        if isinstance(tgt, _ArrayProxy):
            n, s = value_bits_sign(tgt)
            key = self.ev(tgt.key)
            choices = [ext(self.ev_target(c, local), n) for c in tgt.choices]
            r = choices[-1]
            for i in range(len(choices) - 2, -1, -1):
                if i < (1 << key.n):
                    r = z3.If(key.bv == bvconst(i, key.n), choices[i], r)
            return V(r, s)
        if isinstance(tgt, Signal):
            if tgt in local:
                return V(local[tgt], tgt.signed)
            return V(self.sigval(tgt), tgt.signed)
        return self.ev(tgt, local)

    def next_regs(self, cd="sys"):
        """dict reg -> next-state term for one clock domain"""
        r = self._next.get(cd)
        if r is None:
            tr = self.tr
            local = {}
            self.exec_stmts(tr.sync.get(cd, []), local, None)
            r = {}
            for reg in tr.sync_targets.get(cd, ()):
                r[reg] = local.get(reg, self.sigval(reg))
            self._next[cd] = r
        return r
