"""Check driver: runs the obligation tasks of one property in a process pool, applies the verdict protocol
(0 held / 1 violation / 2 undecided / 3 checker error), known findings, native replay, and writes the evidence file."""
import hashlib
import importlib
import inspect
import json
import multiprocessing as mp
import os
import re
import sys
import time
import traceback

VERIF = os.path.dirname(os.path.dirname(os.path.abspath(__file__)))
_OUT = os.environ.get("VERIF_OUT", VERIF)          # scratch runs (seed evaluation) write elsewhere
REPLAYS = os.path.join(_OUT, "replays")
EVIDENCE = os.path.join(_OUT, "evidence")
KNOWN = os.path.join(VERIF, "known_findings.json")

TRUSTED_BASE = [
    "z3 4.x/5.1 (python API, SMT back end); cvc5 as second solver where stated",
    "Migen's own elaboration and lowering passes (get_fragment, MemoryToArray, lower_specials) and LiteX library "
    "modules are verified as elaborated, not assumed; Migen's simulator (Evaluator) is the replay oracle",
    "vc/hwvc.py FHDL->z3 translator (cross-checked against the Migen simulator on every run: difftest)",
    "vc/pyvc.py Python-AST->z3 VC generator (cross-checked against CPython on every run)",
    "harness-only shims: dis-based migen tracer.get_var_name for CPython 3.12; CSR wr_stb/rd_stb aliases",
    "hand-transcribed JEDEC tables in contracts/jedec.py (oracle for C17/C20/SPD)",
]


def load_known():
    try:
        with open(KNOWN) as f:
            return json.load(f).get("findings", [])
    except FileNotFoundError:
        return []


def known_open(fid):
    for k in load_known():
        if k.get("id") == fid and k.get("status") == "open":
            return True
    return False


def _sanitize(s):
    return re.sub(r"[^A-Za-z0-9_.=-]+", "_", s)[:150]


def replay_path(prop, oid):
    """replays/<prop>-<contract>-<kind>-<clause>-<hash of full obligation id>.json"""
    h = hashlib.sha256(oid.encode()).hexdigest()[:8]
    short = re.sub(r"\[[^\]]*\]", "", oid.split("/", 1)[1])
    os.makedirs(REPLAYS, exist_ok=True)
    return os.path.join(REPLAYS, "%s-%s-%s.json" % (prop, _sanitize(short), h))


def cfg_str(cfg):
    if cfg is None:
        return ""
    return ",".join("%s=%s" % (k, cfg[k]) for k in sorted(cfg))


def source_hashes(functions):
    out = []
    for spec in functions:
        try:
            modname, qual = spec.split(":")
            obj = importlib.import_module(modname)
            for part in qual.split("."):
                obj = getattr(obj, part)
                if isinstance(obj, type) and obj.__qualname__.endswith("Wrapped"):
                    obj = obj.__mro__[1]          # Migen ModuleTransformer (ResetInserter / CEInserter) wrapper -> real class
            obj = getattr(obj, "fget", obj)
            src = inspect.getsource(obj)
            out.append({"function": spec, "sha256": hashlib.sha256(src.encode()).hexdigest()[:16],
                        "lines": src.count("\n")})
        except Exception as e:  # noqa
            out.append({"function": spec, "error": "%s: %s" % (type(e).__name__, e)})
    return out


# ---------------------------------------------------------------------------------------------------------------------
# worker
# ---------------------------------------------------------------------------------------------------------------------

def _run_hw_task(mod, task, tier, prop):
    if "cfgs" in task:
        # batch of configurations in one process
        agg = {"results": [], "difftest": None, "info": None, "errors": []}
        dts = []
        for cfg in task["cfgs"]:
            t2 = dict(task)
            del t2["cfgs"]
            t2["cfg"] = cfg
            o = _run_hw_task(mod, t2, tier, prop)
            if "error" in o:
                return o
            agg["results"] += o["results"]
            if o.get("difftest"):
                dts.append(o["difftest"])
            agg["info"] = o["info"]
            agg["contract"] = o["contract"]
        if dts:
            agg["difftest"] = {"cycles": sum(d["cycles"] for d in dts), "comparisons": sum(d["comparisons"] for d in dts),
                               "mismatches": sum(d["mismatches"] for d in dts),
                               "first": [x for d in dts for x in d["first"]][:5]}
        agg["info"] = dict(agg["info"] or {}, batch=len(task["cfgs"]))
        return agg
    from . import engine
    fn = getattr(mod, task["fn"])
    cfg = task.get("cfg")
    t0 = time.time()
    try:
        c = fn(cfg)
    except (KeyError, AttributeError) as e:
        return {"error": "contract does not bind: %s: %s" % (type(e).__name__, e), "error_kind": "undecided",
                "traceback": traceback.format_exc()}
    prefix = "%s/%s[%s]" % (prop, c.name, cfg_str(cfg))
    modes = task.get("modes", ["inductive", "cover", "difftest"])
    tmo = task.get("timeout_ms")
    results = []
    info = {"regs": len(c.tr.regs), "state_bits": sum(r.nbits for r in c.tr.regs),
            "comb_signals": len(c.tr.comb_targets), "free_inputs": len(c.free_list),
            "ghosts": list(c.ghosts), "build_s": round(time.time() - t0, 2)}
    if c.driven_declared_free:
        info["declared_free_but_driven"] = c.driven_declared_free
    if "inductive" in modes:
        results += engine.prove_inductive(c, prefix, timeout_ms=tmo)
    if "response" in modes:
        results += engine.run_responses(c, prefix, timeout_ms=tmo)
    if "window" in modes:
        results += engine.run_windows(c, prefix, timeout_ms=tmo)
    if "bounded" in modes:
        bfn = engine.run_bounded_oneshot if task.get("oneshot") else engine.run_bounded
        results += bfn(c, prefix, task.get("depth", 20), clauses=task.get("bounded_clauses"),
                       timeout_ms=tmo, include_ensures=task.get("bounded_all", "inductive" not in modes))
    if "cover" in modes and c.covers:
        # existential: a native simulation run of the real module that reaches the cover is a witness; the solver is
        # only asked for the covers random simulation did not reach
        nat, rest = engine.run_covers_native(c, prefix, list(c.covers), max(d for _, d in c.covers.values()) + 1,
                                             seed=int(os.environ.get("VERIF_SEED", "0") or 0))
        results += nat
        deep = [n for n in rest if c.covers[n][1] > 80]
        for n in deep:
            results.append(engine._res("%s/cover/%s" % (prefix, n), "cover", "vacuous", 0.0, depth=c.covers[n][1],
                                       note="not reached by native simulation; too deep for the solver"))
        rest = [n for n in rest if n not in deep]
        if rest:
            results += engine.run_covers(c, prefix, timeout_ms=tmo, only=rest)
    dt = None
    if "difftest" in modes:
        n = task.get("difftest_cycles", 120 if tier == "quick" else 1000)
        seed = int(os.environ.get("VERIF_SEED", "0") or 0)
        ncyc, ncmp, mism = engine.difftest(c, n, seed, bias=getattr(c, "difftest_bias", None))
        dt = {"cycles": ncyc, "comparisons": ncmp, "mismatches": len(mism), "first": [list(map(str, m)) for m in mism[:5]]}
    # ---- failed obligations: find a trace from reset where needed, replay natively
    nfail = 0
    t_fail = time.time()
    for r in results:
        if r["status"] != "failed":
            continue
        nfail += 1
        # the search for a trace from reset is budgeted: first 3 failed obligations of a task, 5 minutes in total
        budget_ok = nfail <= task.get("max_searched_failures", 2 if tier == "quick" else 4) and \
            time.time() - t_fail < (60 if tier == "quick" else 600)
        _handle_failure(mod, task, tier, prop, c, r, search=budget_ok)
    return {"results": results, "difftest": dt, "info": info, "contract": c.name}


def _clause_of(c, r):
    """(clause name, fn) that the failed obligation is about"""
    m = re.search(r"\]/(init|step|post|bounded|resp|cover)/(.+?)(@\d+|<=\d+)?$", r["id"])
    name = m.group(2)
    for d in (c.invariants, c.ensures_, c.bounded_):
        if name in d:
            return name, d[name]
    return name, None


def _handle_failure(mod, task, tier, prop, c, r, search=True):
    from . import engine
    import z3
    name, fn = _clause_of(c, r)
    trace = r.get("trace")
    replay = {"property": prop, "obligation": r["id"], "config": task.get("cfg"), "task_fn": task["fn"],
              "module": mod.__name__, "clause": name,
              "solver": {"name": r.get("backend"), "status": "sat (obligation refuted)", "seconds": r["seconds"]}}
    reproduced = False
    if not search and not r.get("from_reset"):
        replay["cti"] = _thin(trace) if trace is not None else None
        replay["search_from_reset"] = {"skipped": "per-task search budget used by earlier failed obligations"}
        trace = None
    if name in c.windows and trace is not None:
        goal, wdepth = c.windows[name]
        replay["cti"] = _thin(trace)
        depth = min(task.get("search_depth", 40), 30) if tier == "quick" else task.get("search_depth", 80)
        t0 = time.time()
        try:
            tr2, start = engine.find_window_from_reset(c, goal, wdepth, depth,
                                                       timeout_ms=task.get("search_timeout_ms", 15000 if tier == "quick" else 120000))
        except Exception as e:  # noqa
            tr2, start = None, None
            replay["search_error"] = str(e)
        replay["search_from_reset"] = {"depth": depth, "seconds": round(time.time() - t0, 2), "found": tr2 is not None}
        if tr2 is not None:
            replay["kind"] = "window"
            replay["trace"] = _thin(tr2)
            replay["window_start"] = start
            replay["window_depth"] = wdepth
            try:
                c2 = getattr(mod, task["fn"])(task.get("cfg"))
                rr = engine.replay_window_native(c2, tr2, c2.windows[name][0], wdepth, start)
                replay["native"] = rr
                reproduced = bool(rr["violated"]) and rr["assume_fail"] is None
            except Exception as e:  # noqa
                replay["native_error"] = "%s: %s" % (type(e).__name__, e)
                replay["native_traceback"] = traceback.format_exc()
    elif fn is not None and trace is not None:
        if not r.get("from_reset"):
            # counterexample-to-induction / arbitrary-state counterexample: look for a real trace from reset
            replay["cti"] = _thin(trace)
            depth = task.get("search_depth", 30 if tier == "quick" else 60)
            t0 = time.time()
            try:
                tr2 = engine.find_trace_from_reset(c, lambda v: z3.Not(fn(v)), depth,
                                                   timeout_ms=task.get("search_timeout_ms", 15000 if tier == "quick" else 90000))
            except Exception as e:  # noqa
                tr2 = None
                replay["search_error"] = str(e)
            replay["search_from_reset"] = {"depth": depth, "seconds": round(time.time() - t0, 2), "found": tr2 is not None}
            trace = tr2
        if trace is not None:
            replay["kind"] = "trace"
            replay["trace"] = _thin(trace)
            try:
                c2 = getattr(mod, task["fn"])(task.get("cfg"))      # fresh instance of the real module
                _, fn2 = _clause_of(c2, r)
                rr = engine.replay_native(c2, trace, {name: fn2})
                ff = rr["first_fail"][name]
                replay["native"] = {"first_failing_cycle": ff, "assumption_violated": rr["assume_fail"],
                                    "cycles": rr["cycles"]}
                reproduced = isinstance(ff, int) and rr["assume_fail"] is None
            except Exception as e:  # noqa
                replay["native_error"] = "%s: %s" % (type(e).__name__, e)
                replay["native_traceback"] = traceback.format_exc()
    replay["reproduced"] = reproduced
    if not reproduced and "kind" not in replay:
        replay["kind"] = "cti"
    os.makedirs(REPLAYS, exist_ok=True)
    path = replay_path(prop, r["id"])
    with open(path, "w") as f:
        json.dump(replay, f, indent=1, default=str)
    r["replay"] = path
    r["reproduced"] = reproduced
    r.pop("trace", None)


def _thin(trace):
    """drop register dumps except first/last frame to keep replay files small"""
    t = dict(trace)
    fr = []
    n = len(trace["frames"])
    for i, x in enumerate(trace["frames"]):
        y = {"inputs": x["inputs"], "ticks": x["ticks"], "ghosts": x["ghosts"]}
        if i in (0, n - 1):
            y["regs"] = x["regs"]
        fr.append(y)
    t["frames"] = fr
    return t


def run_task(args):
    prop, modname, idx, tier = args
    t0 = time.time()
    try:
        mod = importlib.import_module(modname)
        task = mod.tasks(tier)[idx]
        if task.get("kind", "hw") == "hw":
            out = _run_hw_task(mod, task, tier, prop)
        else:
            out = getattr(mod, task["fn"])(task.get("cfg"), tier)
    except Exception as e:  # noqa
        out = {"error": "%s: %s" % (type(e).__name__, e), "error_kind": "checker", "traceback": traceback.format_exc()}
    out["task"] = idx
    out["wall_s"] = round(time.time() - t0, 2)
    return out


# ---------------------------------------------------------------------------------------------------------------------
# main
# ---------------------------------------------------------------------------------------------------------------------

def match_known(prop, r):
    for k in load_known():
        if k.get("property") != prop or k.get("status") != "open":
            continue
        if re.search(k["obligation"], r["id"]):
            return k
    return None


def main(prop, tier):
    t0 = time.time()
    seed = int(os.environ.get("VERIF_SEED", "0") or 0)
    modname = "contracts.%s" % prop.lower()
    mod = importlib.import_module(modname)
    tasks = mod.tasks(tier)
    if not tasks:
        print("CHECKER-ERROR property=%s no tasks" % prop)
        return 3
    nproc = min(int(os.environ.get("VERIF_JOBS", "16")), len(tasks))
    args = [(prop, modname, i, tier) for i in range(len(tasks))]
    # longest tasks first
    order = sorted(range(len(tasks)), key=lambda i: -tasks[i].get("weight", 1))
    only = os.environ.get("VERIF_ONLY")              # development aid: run a subset of tasks (evidence goes to VERIF_OUT)
    if only:
        assert os.environ.get("VERIF_OUT"), "VERIF_ONLY requires VERIF_OUT (partial runs must not overwrite evidence)"
        order = [i for i in order if only in tasks[i]["fn"]]
        nproc = max(1, min(nproc, len(order)))
    ctx = mp.get_context("fork")
    with ctx.Pool(nproc, maxtasksperchild=1) as pool:
        outs = pool.map(run_task, [args[i] for i in order], chunksize=1)
    outs.sort(key=lambda o: o["task"])

    results = []
    errors, undecided = [], []
    difftests = []
    infos = []
    for o in outs:
        t = tasks[o["task"]]
        if "error" in o:
            (undecided if o.get("error_kind") == "undecided" else errors).append(
                "task %s(%s): %s" % (t["fn"], cfg_str(t.get("cfg")), o["error"]))
            if o.get("traceback"):
                sys.stderr.write(o["traceback"])
            continue
        for r in o.get("results", []):
            r["task"] = o["task"]
            results.append(r)
        if o.get("difftest"):
            d = dict(o["difftest"])
            d["task"] = "%s(%s)" % (t["fn"], cfg_str(t.get("cfg")))
            difftests.append(d)
            if d["mismatches"]:
                errors.append("extractor cross-check mismatch in %s: %s" % (d["task"], d["first"]))
        for e in o.get("errors", []):
            errors.append(e)
        if o.get("info"):
            infos.append(dict(o["info"], task="%s(%s)" % (t["fn"], cfg_str(t.get("cfg"))), wall_s=o["wall_s"]))

    proof_kinds = ("init", "step", "post", "comb", "resp", "pyvc", "lemma")
    proved = [r for r in results if r["status"] == "proved"]
    bounded_ok = [r for r in results if r["status"] == "bounded-ok"]
    covered = [r for r in results if r["status"] == "covered"]
    failed = [r for r in results if r["status"] == "failed"]
    unknown = [r for r in results if r["status"] == "unknown"]
    vacuous = [r for r in results if r["status"] == "vacuous"]
    for r in vacuous:
        errors.append("vacuity guard not reachable: %s" % r["id"])
    for r in unknown:
        undecided.append("%s: solver %s" % (r["id"], r.get("reason", "unknown")))
    if not (proved or bounded_ok) and not failed:
        errors.append("zero obligations discharged")

    violations, known_hits = [], []
    extractor_bad = any(d["mismatches"] for d in difftests)
    for r in failed:
        if extractor_bad and not r.get("reproduced"):
            continue        # nothing derived from a mismatching extraction is believed; the run exits 3
        k = match_known(prop, r)
        if k is not None and r.get("reproduced", False):
            known_hits.append((k, r))
        else:
            violations.append(r)
    # a listed finding that no longer fails is simply not reported (the unrestricted obligation is then part of the set)

    lines = []
    for k, r in known_hits:
        lines.append("KNOWN-FINDING: property=%s %s [%s] obligation=%s replay=%s" % (
            prop, k["what"], k["id"], r["id"], os.path.relpath(r.get("replay", ""), VERIF)))
    seen_known = set()
    out_lines = []
    for ln, (k, r) in zip(lines, known_hits):
        if k["id"] not in seen_known:
            seen_known.add(k["id"])
            out_lines.append(ln)
    for r in violations:
        tail = "" if r.get("reproduced") else " no-failing-input-found"
        out_lines.append("VIOLATION property=%s replay=%s obligation=%s%s" % (
            prop, os.path.relpath(r.get("replay", "none"), VERIF), r["id"], tail))

    # ---- evidence
    level = getattr(mod, "LEVEL", "proof")
    proof_obl = [r for r in results if r["kind"] in proof_kinds and not match_known(prop, r)]
    n_obl = len(proof_obl)
    n_dis = len([r for r in proof_obl if r["status"] == "proved"])
    solver_s = round(sum(r.get("seconds", 0) for r in results), 2)
    samples = []
    for r in (proved[:4] + bounded_ok[:2] + covered[:2]):
        samples.append({k: r[k] for k in ("id", "kind", "status", "seconds", "backend") if k in r})
    by_kind = {}
    for r in results:
        key = "%s:%s" % (r["kind"], r["status"])
        by_kind[key] = by_kind.get(key, 0) + 1
    cov = {
        "obligations": n_obl, "discharged": n_dis,
        "checker_cmd": "./check %s --tier %s" % (prop, tier),
        "trusted_base": TRUSTED_BASE,
        "explanation": getattr(mod, "EXPLANATION", ""),
        "by_kind_and_status": by_kind,
        "bounded_obligations": [{"id": r["id"], "depth": r.get("depth"), "seconds": r["seconds"]} for r in bounded_ok],
        "bounded_count_not_counted_as_proved": len(bounded_ok),
        "vacuity_covers_reached": len(covered),
        "known_findings_reported": [{"id": k["id"], "obligation": r["id"]} for k, r in known_hits],
        "functions_under_contract": source_hashes(getattr(mod, "FUNCTIONS", [])),
        "configurations": [cfg_str(c_) for t in tasks for c_ in (t["cfgs"] if "cfgs" in t else [t.get("cfg")])][:400],
        "tasks": infos,
        "extractor_cross_check": difftests,
        "solver_seconds_total": solver_s,
        "obligation_list": [{"id": r["id"], "status": r["status"], "s": r["seconds"]} for r in results],
        "samples": samples,
        "evaluations": len(results),
        "distinct_nontrivial": len(set(r["id"] for r in results)),
        "rule": "one evaluation = one obligation (VC) sent to the solver; distinct = distinct obligation ids",
        "undecided": undecided, "checker_errors": errors,
    }
    for o in outs:
        for k, v in (o.get("coverage_extra") or {}).items():
            cov.setdefault(k, v)
    ev = {"property_id": prop, "tier": tier, "seed": seed, "level": level, "coverage": cov,
          "assumptions": list(getattr(mod, "ASSUMPTIONS", [])), "wall_s": round(time.time() - t0, 2),
          "violations": len(violations)}
    os.makedirs(EVIDENCE, exist_ok=True)
    with open(os.path.join(EVIDENCE, "%s.json" % prop), "w") as f:
        json.dump(ev, f, indent=1, default=str)

    for ln in out_lines:
        print(ln)
    print("%s tier=%s: obligations=%d discharged=%d bounded-ok=%d covers=%d failed=%d (known=%d) unknown=%d "
          "errors=%d solver=%.1fs wall=%.1fs" % (prop, tier, n_obl, n_dis, len(bounded_ok), len(covered), len(failed),
                                                len(known_hits), len(unknown), len(errors), solver_s, time.time() - t0))
    if violations:
        return 1
    if errors:
        for e in errors:
            print("CHECKER-ERROR property=%s %s" % (prop, e))
        return 3
    if undecided:
        for e in undecided:
            print("UNDECIDED property=%s %s" % (prop, e))
        return 2
    return 0


def replay_file(path):
    """re-run a recorded counterexample on the current tree"""
    from . import engine
    with open(path) as f:
        rp = json.load(f)
    mod = importlib.import_module(rp["module"])
    if rp.get("kind") == "trace":
        c = getattr(mod, rp["task_fn"])(rp["config"])
        name = rp["clause"]
        fn = None
        for d in (c.invariants, c.ensures_, c.bounded_):
            if name in d:
                fn = d[name]
        rr = engine.replay_native(c, rp["trace"], {name: fn})
        ff = rr["first_fail"][name]
        ok = isinstance(ff, int) and rr["assume_fail"] is None
        print("replay %s: clause %s %s (first failing cycle: %s)" % (
            rp["obligation"], name, "VIOLATED on current tree" if ok else "not violated on current tree", ff))
        return 1 if ok else 0
    if rp.get("kind") == "window":
        c = getattr(mod, rp["task_fn"])(rp["config"])
        goal, wdepth = c.windows[rp["clause"]]
        rr = engine.replay_window_native(c, rp["trace"], goal, wdepth, rp["window_start"])
        ok = bool(rr["violated"]) and rr["assume_fail"] is None
        print("replay %s: window clause %s %s" % (rp["obligation"], rp["clause"],
                                                  "VIOLATED on current tree" if ok else "not violated on current tree"))
        return 1 if ok else 0
    if rp.get("kind") == "pyargs" and hasattr(mod, "replay"):
        return mod.replay(rp)
    print("replay file carries no input (kind=%s): obligation %s; solver output attached in file" % (
        rp.get("kind"), rp.get("obligation")))
    return 0


if __name__ == "__main__":
    import argparse
    ap = argparse.ArgumentParser()
    ap.add_argument("prop")
    ap.add_argument("arg", nargs="?")
    ap.add_argument("--tier", default=os.environ.get("VERIF_TIER", "quick"))
    a = ap.parse_args()
    if a.prop == "replay":
        sys.exit(replay_file(a.arg))
    sys.exit(main(a.prop, a.tier))
