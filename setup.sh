#!/bin/bash
# Builds /verif/.venv (python 3.12 = /venv's interpreter) with z3-solver, cvc5, jsonschema from the offline
# wheelhouse, plus a .pth that exposes /venv's site-packages (migen, litex, editable litedram -> /repo).
set -e
cd "$(dirname "$0")"
if [ -x .venv/bin/python ] && .venv/bin/python -c "import z3, jsonschema, migen, litedram" 2>/dev/null; then
  echo "venv ok"; exit 0
fi
rm -rf .venv
/venv/bin/python -m venv .venv
PIP_NO_INDEX=1 .venv/bin/pip install -q --no-index --find-links /opt/veriftools/wheels z3-solver cvc5 jsonschema
SP=$(.venv/bin/python -c "import sysconfig; print(sysconfig.get_paths()['purelib'])")
echo "import site; site.addsitedir('/venv/lib/python3.12/site-packages')" > "$SP/_repo.pth"
.venv/bin/python -c "import z3, jsonschema, migen, litedram; print('venv built', z3.get_version_string(), litedram.__file__)"
